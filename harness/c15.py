"""C15 — built-in biological tables and enumerated algebras are correct (finite domains, decided completely)."""
import itertools

import harness.common  # noqa: F401
from inscripta.biocantor.gene.cds_frame import CDSFrame, CDSPhase
from inscripta.biocantor.location.strand import Strand

from vlib.obl import Obl
from vlib.sym import AND, IFF, ITE, NOT, OR, concretize, untraced

META = dict(
    functions=["constants.gencode / extended_gencode / aacodons (live dicts -> z3 function tables)",
               "codon.START_CODONS_BY_TRANSLATION_TABLE, Codon.translate/synonymous_codons/is_stop_codon/is_strict_codon/"
               "is_canonical_start_codon/is_start_codon_in_specific_translation_table",
               "alphabet.ALPHABET_TO_NUCLEOTIDE_COMPLEMENT, Alphabet.is_nucleotide_alphabet, Sequence.reverse_complement (per letter)",
               "CDSFrame.shift/to_phase, CDSPhase.to_frame/from_int, Strand.reverse/relative_to/from_symbol/to_symbol/from_int/__lt__",
               "Biotype synonyms"],
    bounds="finite domains covered completely: 64 strict codons, 16^3 IUPAC triplets (quick: all triplets in the z3 table queries, "
           "4096 through the real Codon class in the thorough tier, 64 strict + 200 ambiguous in quick), every alphabet letter in both cases, "
           "all strand pairs, all biotype names; CDSFrame.shift over ALL integers (symbolic, unbounded)",
    outside="nothing inside the stated finite domains; shift amounts are unbounded",
    exhaustive=True,
    stubs=["S1", "S11"],
    assumptions=["reference tables: Bio.Data.CodonTable (NCBI tables 1 and 11) and Bio.Data.IUPACData read at run time",
                 "U is identified with T for the involution law (comp(comp(U)) == T)"],
    engines="z3 5.1 function-table queries (cvc5 cross-check) + CrossHair for the algebraic laws and the Codon class",
    batch_cost=40.0,
)
NUC = "ACGT"
IUPAC = {"A": "A", "C": "C", "G": "G", "T": "T", "U": "T", "R": "AG", "Y": "CT", "S": "CG", "W": "AT", "K": "GT", "M": "AC",
         "B": "CGT", "D": "AGT", "H": "ACT", "V": "ACG", "N": "ACGT"}
LETTERS = "ATUCGNWSMKRYBDHV"


def _ref_tables():
    from Bio.Data import CodonTable

    t1 = CodonTable.unambiguous_dna_by_id[1]
    t11 = CodonTable.unambiguous_dna_by_id[11]
    fwd = dict(t1.forward_table)
    for s in t1.stop_codons:
        fwd[s] = "*"
    return fwd, set(t1.stop_codons), set(t1.start_codons), set(t11.start_codons), set(t11.stop_codons)


# ------------------------------------------------------------------ z3 table queries
def _smt_tables():
    import z3

    from inscripta.biocantor.constants import aacodons, extended_gencode, gencode
    from inscripta.biocantor.gene.codon import START_CODONS_BY_TRANSLATION_TABLE, TranslationTable
    from vlib.src2smt import cvc5_check

    fwd, stops1, starts1, starts11, stops11 = _ref_tables()
    aas = sorted(set(fwd.values()) | set(gencode.values()) | set(extended_gencode.values()) | set(aacodons) | {"?"})
    AA = {a: i for i, a in enumerate(aas)}
    N = {n: i for i, n in enumerate(NUC)}
    L = {c: i for i, c in enumerate(LETTERS)}
    queries, failures = [], []

    def decide(name, asserts, decode):
        s = z3.Solver()
        s.set("timeout", 60000)
        s.add(*asserts)
        r = s.check()
        cv = cvc5_check(s.to_smt2(), 60000)
        queries.append(dict(query=name, z3=str(r), cvc5=cv))
        if str(r) == "sat":
            failures.append((name, decode(s.model())))
        elif str(r) != "unsat":
            failures.append((name, "solver answered %s" % r))

    def table_fn(name, arity, mapping, default):
        f = z3.Function(name, *([z3.IntSort()] * (arity + 1)))
        cons = []
        return f, cons

    # ref and gencode as functions nuc^3 -> aa
    ref = z3.Function("ref", z3.IntSort(), z3.IntSort(), z3.IntSort(), z3.IntSort())
    gen = z3.Function("gen", z3.IntSort(), z3.IntSort(), z3.IntSort(), z3.IntSort())
    base = []
    for c in itertools.product(NUC, repeat=3):
        cs = "".join(c)
        base.append(ref(N[c[0]], N[c[1]], N[c[2]]) == AA[fwd[cs]])
        base.append(gen(N[c[0]], N[c[1]], N[c[2]]) == AA[gencode.get(cs, "?")])
    a, b, c3 = z3.Ints("n1 n2 n3")
    dom = [0 <= a, a < 4, 0 <= b, b < 4, 0 <= c3, c3 < 4]

    def dec_codon(m):
        return "".join(NUC[m.eval(x, model_completion=True).as_long()] for x in (a, b, c3))

    decide("gencode == standard genetic code on all 64 strict codons", base + dom + [gen(a, b, c3) != ref(a, b, c3)], dec_codon)
    if set(gencode) != {"".join(c) for c in itertools.product(NUC, repeat=3)}:
        failures.append(("gencode keys", "domain is not exactly the 64 strict codons"))

    # extended_gencode: every expansion of every translatable IUPAC triplet encodes that amino acid
    ext = z3.Function("ext", z3.IntSort(), z3.IntSort(), z3.IntSort(), z3.IntSort())  # -1 = not translatable
    expn = z3.Function("exp", z3.IntSort(), z3.IntSort(), z3.BoolSort())
    cons = list(base)
    for li, lc in enumerate(LETTERS):
        for ni, nc in enumerate(NUC):
            cons.append(expn(li, ni) == (nc in IUPAC[lc]))
    for t in itertools.product(LETTERS, repeat=3):
        ts = "".join(t)
        v = extended_gencode.get(ts)
        cons.append(ext(L[t[0]], L[t[1]], L[t[2]]) == (AA[v] if v is not None else -1))
    t1, t2, t3 = z3.Ints("t1 t2 t3")
    tdom = [0 <= t1, t1 < 16, 0 <= t2, t2 < 16, 0 <= t3, t3 < 16]

    def dec_trip(m):
        return "".join(LETTERS[m.eval(x, model_completion=True).as_long()] for x in (t1, t2, t3)) + " expands to " + dec_codon(m)

    decide("every expansion of a translatable IUPAC triplet encodes the stated amino acid",
           cons + dom + tdom + [ext(t1, t2, t3) != -1, expn(t1, a), expn(t2, b), expn(t3, c3), ref(a, b, c3) != ext(t1, t2, t3)], dec_trip)
    bad_keys = [k for k in extended_gencode if len(k) != 3 or any(ch not in LETTERS for ch in k)]
    if bad_keys:
        failures.append(("extended_gencode keys", "non-IUPAC keys %s" % bad_keys[:5]))

    # aacodons partitions the 64 codons by amino acid
    member = z3.Function("inaa", z3.IntSort(), z3.IntSort(), z3.IntSort(), z3.IntSort(), z3.BoolSort())
    cons = list(base)
    for aa, i in AA.items():
        lst = set(aacodons.get(aa, []))
        for c in itertools.product(NUC, repeat=3):
            cons.append(member(i, N[c[0]], N[c[1]], N[c[2]]) == ("".join(c) in lst))
    q = z3.Int("aa")
    decide("aacodons partitions the 64 codons by amino acid (codon listed under aa <=> standard code maps it to aa)",
           cons + dom + [0 <= q, q < len(aas), member(q, a, b, c3) != (ref(a, b, c3) == q)],
           lambda m: "%s under %s" % (dec_codon(m), aas[m.eval(q, model_completion=True).as_long()]))
    extra = [(aa, x) for aa, l in aacodons.items() for x in l if len(x) != 3 or any(ch not in NUC for ch in x)]
    dup = [aa for aa, l in aacodons.items() if len(l) != len(set(l))]
    if extra or dup:
        failures.append(("aacodons entries", "non-strict or duplicate entries %s %s" % (extra[:3], dup[:3])))

    # start / stop sets
    isstart = z3.Function("isstart", z3.IntSort(), z3.IntSort(), z3.IntSort(), z3.IntSort(), z3.BoolSort())
    refstart = z3.Function("refstart", z3.IntSort(), z3.IntSort(), z3.IntSort(), z3.IntSort(), z3.BoolSort())
    cons = []
    reftab = {0: {"ATG"}, 1: starts1, 11: starts11}
    for tt in TranslationTable:
        lib = {str(x) for x in START_CODONS_BY_TRANSLATION_TABLE[tt]}
        for c in itertools.product(NUC, repeat=3):
            cs = "".join(c)
            cons.append(isstart(int(tt), N[c[0]], N[c[1]], N[c[2]]) == (cs in lib))
            cons.append(refstart(int(tt), N[c[0]], N[c[1]], N[c[2]]) == (cs in reftab[int(tt)]))
        nonstrict = [x for x in lib if any(ch not in NUC for ch in x)]
        if nonstrict:
            failures.append(("start codons", "non-strict start codons %s" % nonstrict))
    tt = z3.Int("table")
    decide("start codon sets equal NCBI tables 1 and 11 and ATG-only default",
           cons + dom + [z3.Or(tt == 0, tt == 1, tt == 11), isstart(tt, a, b, c3) != refstart(tt, a, b, c3)],
           lambda m: "%s in table %s" % (dec_codon(m), m.eval(tt, model_completion=True)))
    if set(aacodons.get("*", [])) != stops1 or stops1 != stops11:
        failures.append(("stop codons", "aacodons['*']=%s vs NCBI %s" % (aacodons.get("*"), sorted(stops1))))

    return dict(verdict="REFUTED" if failures else "CONFIRMED", queries=2 * len(queries),
                cex={"failures": [list(map(str, f)) for f in failures]} if failures else None,
                message="; ".join("%s: %s" % f for f in failures)[:1500], solver_queries=queries, validated=len(queries))


def _tables_concrete(**kw):
    """replay of a table counterexample: recompute on the plain interpreter (the table queries are decided on live
    tables, so a failure is reproduced by re-deciding)"""
    from inscripta.biocantor.constants import aacodons, extended_gencode, gencode
    from inscripta.biocantor.gene.codon import START_CODONS_BY_TRANSLATION_TABLE, TranslationTable

    fwd, stops1, starts1, starts11, stops11 = _ref_tables()
    ok = all(gencode.get("".join(c)) == fwd["".join(c)] for c in itertools.product(NUC, repeat=3)) and len(gencode) == 64
    for t, v in extended_gencode.items():
        for e in itertools.product(*[IUPAC[x] for x in t]):
            ok = ok and fwd["".join(e)] == v
    for c in itertools.product(NUC, repeat=3):
        cs = "".join(c)
        ok = ok and [aa for aa, l in aacodons.items() if cs in l] == [fwd[cs]]
    ref = {0: {"ATG"}, 1: starts1, 11: starts11}
    for tt in TranslationTable:
        ok = ok and {str(x) for x in START_CODONS_BY_TRANSLATION_TABLE[tt]} == ref[int(tt)]
    ok = ok and set(aacodons["*"]) == stops1
    return ok


def _smt_complement():
    import z3

    from Bio.Data import IUPACData
    from inscripta.biocantor.sequence.alphabet import ALPHABET_TO_NUCLEOTIDE_COMPLEMENT, Alphabet

    refc = dict(IUPACData.ambiguous_dna_complement)
    refc["U"] = "A"
    refc["-"] = "-"
    failures, queries = [], []
    for alpha, table in ALPHABET_TO_NUCLEOTIDE_COMPLEMENT.items():
        letters = sorted(set(alpha.value) | set(alpha.value.lower()))
        idx = {c: i for i, c in enumerate(sorted(set(letters) | set(table) | set(table.values())))}
        inv = {i: c for c, i in idx.items()}
        comp = z3.Function("comp_" + alpha.name, z3.IntSort(), z3.IntSort())
        refcomp = z3.Function("ref_" + alpha.name, z3.IntSort(), z3.IntSort())
        lower = z3.Function("lower_" + alpha.name, z3.IntSort(), z3.BoolSort())
        indom = z3.Function("dom_" + alpha.name, z3.IntSort(), z3.BoolSort())
        cons = []
        for c, i in idx.items():
            cons.append(comp(i) == idx.get(table.get(c, None), -1) if c in table else comp(i) == -1)
            up = c.upper()
            r = refc.get(up)
            r = (r.lower() if (c.islower() and r) else r) if r else None
            cons.append(refcomp(i) == (idx[r] if r in idx else -2))
            cons.append(lower(i) == c.islower())
            cons.append(indom(i) == (c in letters))
        x = z3.Int("x")
        dom = [0 <= x, x < len(idx)]
        uidx = [idx[u] for u in ("U", "u") if u in idx]
        tmap = {idx[u]: idx[t] for u, t in (("U", "T"), ("u", "t")) if u in idx and t in idx}
        s = z3.Solver()
        inv_ok = z3.Or(comp(comp(x)) == x, *[z3.And(x == u, comp(comp(x)) == t) for u, t in tmap.items()])
        bad = z3.And(indom(x), z3.Or(comp(x) == -1, comp(x) != refcomp(x), z3.Not(inv_ok), lower(comp(x)) != lower(x)))
        bad2 = z3.And(z3.Not(indom(x)), comp(x) != -1)  # table defines letters outside the alphabet
        s.add(*cons)
        s.add(*dom)
        s.add(z3.Or(bad, bad2))
        r = s.check()
        queries.append(dict(query="complement table of %s: total on the alphabet (both cases), IUPAC complement, involution, case preserved" % alpha.name, z3=str(r)))
        if str(r) == "sat":
            failures.append((alpha.name, inv[s.model().eval(x, model_completion=True).as_long()]))
        elif str(r) != "unsat":
            failures.append((alpha.name, str(r)))
    for a in Alphabet:
        if a.is_nucleotide_alphabet() != (a in ALPHABET_TO_NUCLEOTIDE_COMPLEMENT):
            failures.append((a.name, "is_nucleotide_alphabet disagrees with the complement tables"))
    return dict(verdict="REFUTED" if failures else "CONFIRMED", queries=len(queries),
                cex={"failures": [list(f) for f in failures]} if failures else None,
                message="; ".join("%s: letter %s" % f for f in failures), solver_queries=queries, validated=len(queries))


def _complement_concrete(**kw):
    from Bio.Data import IUPACData
    from inscripta.biocantor.sequence import Alphabet, Sequence
    from inscripta.biocantor.sequence.alphabet import ALPHABET_TO_NUCLEOTIDE_COMPLEMENT

    refc = dict(IUPACData.ambiguous_dna_complement)
    refc.update({"U": "A", "-": "-"})
    ok = True
    for alpha, table in ALPHABET_TO_NUCLEOTIDE_COMPLEMENT.items():
        for c in set(alpha.value) | set(alpha.value.lower()):
            exp = refc[c.upper()]
            exp = exp.lower() if c.islower() else exp
            got = str(Sequence(c, alpha).reverse_complement())
            ok = ok and got == exp and table[c] == exp
    return ok


def _smt_biotypes():
    from inscripta.biocantor.gene.biotype import Biotype

    groups = [("protein_coding", "protein-coding", "mRNA"), ("misc_RNA", "miscRNA"), ("pseudogene", "pseudo"), ("lncRNA", "lnc_RNA")]
    bad = []
    for g in groups:
        vals = {Biotype[n].value for n in g}
        if len(vals) != 1 or len({Biotype[n] for n in g}) != 1:
            bad.append(g)
    # distinct canonical names have distinct values
    canon = {}
    for name, member in Biotype.__members__.items():
        canon.setdefault(member.value, set()).add(name)
    syn = {frozenset(g) for g in groups}
    for v, names in canon.items():
        if len(names) > 1 and frozenset(names) not in syn:
            bad.append(tuple(sorted(names)))
    return dict(verdict="REFUTED" if bad else "CONFIRMED", queries=1, cex={"failures": [list(b) for b in bad]} if bad else None,
                message=str(bad), validated=len(Biotype.__members__))


# ------------------------------------------------------------------ CrossHair: algebraic laws
FR = [CDSFrame.ZERO, CDSFrame.ONE, CDSFrame.TWO]
ST = [Strand.PLUS, Strand.MINUS, Strand.UNSTRANDED]


def shift_laws(v):
    def fn(n, m):
        f = CDSFrame(v)
        a = f.shift(n)
        b = a.shift(m)
        c = f.shift(n + m)
        return AND(a.value == (v + n) % 3, b is c, f.shift(0) is f, f.shift(n).shift(-n) is f, CDSFrame.NONE.shift(n) is CDSFrame.NONE)

    return fn


def phase_frame_laws():
    def fn(i):
        i = concretize(i)
        with untraced():
            ph, fr = CDSPhase(i), CDSFrame(i)
            ok = ph.to_frame().to_phase() is ph and fr.to_phase().to_frame() is fr
            if i >= 0:
                ok = ok and ph.to_frame().value == (3 - i) % 3 and fr.to_phase().value == (3 - i) % 3
                ok = ok and CDSPhase.from_int(i) is ph and CDSFrame.from_int(i) is fr and ph.to_gff() == str(i)
            else:
                ok = ok and ph.to_frame() is CDSFrame.NONE and fr.to_phase() is CDSPhase.NONE and ph.to_gff() == "."
            return ok

    return fn


def strand_laws():
    def fn(i, j, k):
        i, j, k = concretize(i, j, k)
        with untraced():
            a, b, c = ST[i], ST[j], ST[k]
            sym = {Strand.PLUS: "+", Strand.MINUS: "-", Strand.UNSTRANDED: "."}
            ok = a.reverse().reverse() is a and Strand.from_symbol(a.to_symbol()) is a and Strand.from_int(a.value) is a
            ok = ok and a.to_symbol() == sym[a] and str(a) == sym[a]
            ok = ok and a.relative_to(b) is b.relative_to(a)
            # composition table: product of signs, UNSTRANDED absorbing
            exp = Strand.UNSTRANDED if Strand.UNSTRANDED in (a, b) else (Strand.PLUS if a is b else Strand.MINUS)
            ok = ok and a.relative_to(b) is exp
            ok = ok and a.relative_to(b).relative_to(c) is a.relative_to(b.relative_to(c))
            ok = ok and a.relative_to(Strand.PLUS) is a
            if Strand.UNSTRANDED not in (a, b):
                ok = ok and a.reverse().relative_to(b) is a.relative_to(b).reverse()
            # total order
            ok = ok and ((a < b) + (b < a) + (a is b) == 1) and (not (a < b and b < c) or a < c)
            return ok

    return fn


def codon_class(letters):
    """the real Codon class on a triplet drawn from `letters` (indices symbolic, closed by the solver)"""
    from inscripta.biocantor.constants import aacodons  # noqa: F401

    def fn(i, j, k):
        i, j, k = concretize(i, j, k)
        with untraced():
            from inscripta.biocantor.gene.codon import Codon, TranslationTable

            fwd, stops1, starts1, starts11, _ = _ref_tables()
            s = letters[i] + letters[j] + letters[k]
            c = Codon(s)
            su = s.upper()

            def verify():
                strict = all(ch in NUC for ch in su)
                exps = {fwd["".join(e)] for e in itertools.product(*[IUPAC[ch] for ch in su])}
                ok = c.is_strict_codon == strict
                if strict:
                    ok = ok and c.translate() == fwd[su] and c.translate(strict=False) == fwd[su]
                else:
                    ok = ok and c.translate() == "X"
                    t = c.translate(strict=False)
                    ok = ok and (t == "X" or exps == {t})
                ok = ok and c.is_stop_codon == (strict and su in stops1)
                ok = ok and c.is_canonical_start_codon == (su == "ATG")
                ok = ok and c.is_start_codon_in_specific_translation_table(TranslationTable.DEFAULT) == (su == "ATG")
                ok = ok and c.is_start_codon_in_specific_translation_table(TranslationTable.STANDARD) == (su in starts1)
                ok = ok and c.is_start_codon_in_specific_translation_table(TranslationTable.PROKARYOTE) == (su in starts11)
                t = c.translate(strict=False)
                syn = {str(x) for x in c.synonymous_codons(include_self=True)}
                if t == "X":
                    ok = ok and syn == {su}
                else:
                    # documented: for a translatable ambiguous codon, all strict codons of that amino acid (self is not strict)
                    ok = ok and syn == {cs for cs, aa in fwd.items() if aa == t}
                    ok = ok and {str(x) for x in c.synonymous_codons()} == {cs for cs, aa in fwd.items() if aa == t} - {su}
                ok = ok and Codon(s.lower()) is c and str(c) == su
                return ok

            ok = verify()
            # second use: every answer is the same when asked again on the same (singleton) object, in a different order, and after a caller has
            # edited the list synonymous_codons() handed out (the library must not hand out its own tables)

            def battery(cd, syn_first):
                out = []
                if syn_first:
                    out.append(sorted(str(x) for x in cd.synonymous_codons(include_self=True)))
                out += [cd.translate(), cd.translate(strict=False), cd.is_strict_codon, cd.is_stop_codon, cd.is_canonical_start_codon,
                        [cd.is_start_codon_in_specific_translation_table(tb) for tb in TranslationTable], sorted(str(x) for x in cd.synonymous_codons())]
                if not syn_first:
                    out.insert(0, sorted(str(x) for x in cd.synonymous_codons(include_self=True)))
                return out

            b1 = battery(c, False)
            handed = c.synonymous_codons(include_self=True)
            if isinstance(handed, list):
                del handed[:]
            handed2 = c.synonymous_codons()
            if isinstance(handed2, list):
                handed2.append(c)
            ok = ok and battery(c, True) == b1 and battery(Codon(su), False) == b1
            # ... and still the reference answers
            return ok and verify()

    return fn


def codon_isolation(first):
    """a held Codon object keeps all its answers whatever other codon (incl. RNA spelling / other case) is constructed afterwards"""

    def fn(j, k, a, b, c, low):
        j, k, a, b, c, low = concretize(j, k, a, b, c, low)
        with untraced():
            from inscripta.biocantor.gene.codon import Codon, TranslationTable

            x = "ACGT"[first] + "ACGT"[j] + "ACGT"[k]
            y = "ACGTU"[a] + "ACGTU"[b] + "ACGTU"[c]
            if low:
                y = y.lower()

            def answers(cd):
                return (str(cd), cd.value, hash(cd), cd.translate(), cd.translate(strict=False), cd.is_strict_codon, cd.is_stop_codon, cd.is_canonical_start_codon,
                        tuple(cd.is_start_codon_in_specific_translation_table(t) for t in TranslationTable), tuple(sorted(str(z) for z in cd.synonymous_codons())))

            cx = Codon(x)
            before = answers(cx)
            fwd = _ref_tables()[0]
            cy = Codon(y)
            ok = answers(cx) == before and before[0] == x and before[3] == fwd[x]
            ok = ok and Codon(x) is cx and answers(Codon(x)) == before
            ok = ok and (cy is cx) == (y.upper() == x) and str(cy) == y.upper()
            return ok

    return fn


def registry_pressure():
    """the codon registry under pressure: after EVERY IUPAC triplet has been constructed and a number of rejected strings have been offered as well, the
    built-in start/stop tables, identity of equal spellings and every answer of a held codon are what they were (a bounded / evicting registry would
    break identity-based equality)"""

    def fn(n_bad, probe):
        n_bad, probe = concretize(n_bad, probe)
        with untraced():
            from inscripta.biocantor.gene.codon import Codon, TranslationTable

            fwd, stops1, starts1, starts11, _ = _ref_tables()
            held = {t: Codon(t) for t in ("ATG", "GTG", "TTG", "CTG", "TAA", "TAG", "TGA", "AAA")}

            def snapshot():
                return {t: (c.translate(), c.is_stop_codon, c.is_canonical_start_codon, tuple(c.is_start_codon_in_specific_translation_table(tb) for tb in TranslationTable),
                            tuple(sorted(str(x) for x in c.synonymous_codons()))) for t, c in held.items()}

            before = snapshot()
            for a, b, c in itertools.product(LETTERS, repeat=3):
                Codon(a + b + c)
            bad = ["AT", "ATGA", "A-G", "AT*", "XYZ", "", "ATGG", "A G", "123", "ÄTG", "AT\n", "NN"]
            for t in bad[:n_bad]:
                try:
                    Codon(t)
                    return False  # a non-triplet / foreign letter must be refused
                except ValueError:
                    pass
            # one further spelling never offered before
            try:
                Codon("Q%02d" % probe)
                return False
            except ValueError:
                pass
            ok = snapshot() == before
            for t, c in held.items():
                fresh = Codon(t)
                ok = ok and fresh is c and fresh == c and Codon(t.lower()) is c
                ok = ok and c.is_start_codon_in_specific_translation_table(TranslationTable.STANDARD) == (t in starts1)
                ok = ok and c.is_start_codon_in_specific_translation_table(TranslationTable.PROKARYOTE) == (t in starts11)
                ok = ok and c.is_canonical_start_codon == (t == "ATG") and c.is_stop_codon == (t in stops1)
            return ok

    return fn


def long_reverse_complement():
    """reverse complement of LONG mixed-case sequences (lengths around powers of two, where block-wise or bulk fast paths would switch on) equals the
    letter-by-letter IUPAC complement, reversed, case preserved; twice gives the sequence back (U~T)"""

    def fn(a, e, d, phase):
        a, e, d, phase = concretize(a, e, d, phase)
        with untraced():
            from Bio.Data import IUPACData
            from inscripta.biocantor.sequence import Sequence
            from inscripta.biocantor.sequence.alphabet import ALPHABET_TO_NUCLEOTIDE_COMPLEMENT

            refc = dict(IUPACData.ambiguous_dna_complement)
            refc.update({"U": "A", "-": "-"})
            alpha = sorted(ALPHABET_TO_NUCLEOTIDE_COMPLEMENT, key=lambda x: x.name)[a]
            letters = sorted(set(alpha.value))
            n = 2 ** e + d
            unit = "".join(letters) + "".join(letters).lower()
            unit = unit[phase:] + unit[:phase]
            text = (unit * (n // len(unit) + 1))[:n]
            got = str(Sequence(text, alpha).reverse_complement())
            exp = "".join((refc[ch.upper()].lower() if ch.islower() else refc[ch.upper()]) for ch in reversed(text))
            if got != exp:
                return False
            back = str(Sequence(text, alpha).reverse_complement().reverse_complement())
            return back.replace("U", "T").replace("u", "t") == text.replace("U", "T").replace("u", "t")

    return fn


def complement_context_free(alpha_idx):
    """the complement of a letter does not depend on the OTHER letters of the sequence: reverse complement of every 3-letter text over an alphabet is the
    letter-by-letter table image reversed (an RNA-looking text - U and no T - is complemented with the same table as any other)"""

    def fn(i, j, k):
        i, j, k = concretize(i, j, k)
        with untraced():
            from Bio.Data import IUPACData
            from inscripta.biocantor.sequence import Sequence
            from inscripta.biocantor.sequence.alphabet import ALPHABET_TO_NUCLEOTIDE_COMPLEMENT

            refc = dict(IUPACData.ambiguous_dna_complement)
            refc.update({"U": "A", "-": "-"})
            alpha = sorted(ALPHABET_TO_NUCLEOTIDE_COMPLEMENT, key=lambda x: x.name)[alpha_idx]
            letters = sorted(set(alpha.value))
            if max(i, j, k) >= len(letters):
                return True
            ok = True
            for text in (letters[i] + letters[j] + letters[k], (letters[i] + letters[j] + letters[k]).lower(), letters[i] + letters[j].lower() + letters[k] + letters[i]):
                exp = "".join((refc[ch.upper()].lower() if ch.islower() else refc[ch.upper()]) for ch in reversed(text))
                ok = ok and str(Sequence(text, alpha).reverse_complement()) == exp
            return ok

    return fn


def enum_membership():
    """membership tests and lookups of the enumerations agree: has_name(x) exactly when Enum[x] succeeds, has_value(x) exactly when Enum(x) succeeds, for every
    member name, alias, value and near-miss spelling (hyphen / underscore / case variants)"""

    def fn(e, n, v):
        e, n, v = concretize(e, n, v)
        with untraced():
            from inscripta.biocantor.gene.biotype import Biotype
            from inscripta.biocantor.gene.cds_frame import CDSFrame, CDSPhase
            from inscripta.biocantor.location.strand import Strand
            from inscripta.biocantor.parent import SequenceType
            from inscripta.biocantor.sequence.alphabet import Alphabet

            enum = [Biotype, CDSFrame, CDSPhase, Strand, SequenceType, Alphabet][e]
            names = sorted(enum.__members__)
            base = names[n % len(names)]
            cand = [base, base.replace("_", "-"), base.replace("-", "_"), base.lower(), base.upper(), base + "x", base.replace("_", "")][v]
            ok = True
            if hasattr(enum, "has_name"):
                try:
                    enum[cand]
                    real = True
                except KeyError:
                    real = False
                ok = ok and enum.has_name(cand) is real
            if hasattr(enum, "has_value"):
                vals = [m.value for m in enum]
                for x in (cand, vals[n % len(vals)]):
                    try:
                        enum(x)
                        real = True
                    except ValueError:
                        real = False
                    ok = ok and enum.has_value(x) is real
            return ok

    return fn


def obligations(tier):
    out = [
        Obl("tables_codons", _smt_tables, {}, None, kind="smt", twin=False, cost=20, concrete=_tables_concrete,
            desc="gencode == standard code (64); every expansion of every translatable IUPAC triplet (16^3) encodes the stated amino acid; "
                 "aacodons partitions the 64 codons; start/stop sets == NCBI tables 1/11/ATG-only: each an unsat z3 query over the live tables",
            bounds="complete finite domains"),
        Obl("tables_complement", _smt_complement, {}, None, kind="smt", twin=False, cost=5, concrete=_complement_concrete,
            desc="complement tables: total on each nucleotide alphabet in both cases, equal to the IUPAC complement, involution (U~T), case preserved",
            bounds="every letter and case of the 5 nucleotide alphabets"),
        Obl("tables_biotypes", _smt_biotypes, {}, None, kind="smt", twin=False, cost=1, concrete=lambda **kw: _smt_biotypes()["verdict"] == "CONFIRMED",
            desc="biotype synonyms share one value/member; no unintended aliases", bounds="all biotype names"),
    ]
    for v in (0, 1, 2):
        out.append(Obl("frame_shift_laws_%d" % v, shift_laws(v), {"n": int, "m": int}, None, budget=120, cost=3,
                       desc="CDSFrame(%d).shift(n).value == (%d+n) mod 3; shift(n).shift(m) is shift(n+m); shift(0) identity; shift(-n) inverse; NONE fixed" % (v, v),
                       bounds="ALL integers n, m (symbolic, unbounded)", examples=[dict(n=5, m=-7), dict(n=-1, m=0), dict(n=-30, m=30)]))
    out.append(Obl("phase_frame_roundtrip", phase_frame_laws(), {"i": int}, lambda i: -1 <= i and i <= 2, budget=60, cost=2,
                   desc="frame<->phase conversions round-trip and map x -> (3-x) mod 3; from_int; NONE <-> NONE; gff rendering",
                   bounds="all 4 values", examples=[dict(i=1)]))
    out.append(Obl("strand_laws", strand_laws(), {"i": int, "j": int, "k": int},
                   lambda i, j, k: 0 <= i and i <= 2 and 0 <= j and j <= 2 and 0 <= k and k <= 2, budget=120, cost=5,
                   desc="strand reversal involution, symbol/int round-trips, composition = commutative/associative sign product with UNSTRANDED absorbing, total order",
                   bounds="all 27 strand triples", examples=[dict(i=0, j=1, k=2)]))
    out.append(Obl("codon_class_strict", codon_class("ACGT"), {"i": int, "j": int, "k": int},
                   lambda i, j, k: 0 <= i and i <= 3 and 0 <= j and j <= 3 and 0 <= k and k <= 3, budget=200, cost=15,
                   desc="real Codon class on all 64 strict codons: translate, stop/start predicates per table, synonymous codons, case-insensitive singleton",
                   bounds="64 strict codons (indices closed by the solver)", examples=[dict(i=0, j=3, k=2)]))
    for first in range(4):
        out.append(Obl("codon_singletons_isolated_%s" % "ACGT"[first], codon_isolation(first), dict(j=int, k=int, a=int, b=int, c=int, low=bool),
                       (lambda q: (lambda j, k, a, b, c, low: 0 <= j and j <= 3 and 0 <= k and k <= 3 and 0 <= a and a <= 4 and 0 <= b and b <= 4 and 0 <= c and
                                   c <= 4 and not (q and low)))(tier == "quick"),
                       budget=600, cost=40,
                       desc="a held strict Codon starting with %s keeps every answer (translate, predicates, synonyms, str, hash, identity) after ANY other codon over "
                            "ACGTU (upper or lower case) is constructed: the singleton table never aliases two spellings" % "ACGT"[first],
                       bounds="16 held codons x 125 constructed codons%s (closed by the solver)" % ("" if tier == "quick" else " x 2 cases"), examples=[dict(j=1, k=2, a=0, b=4, c=2, low=False)]))
    for a in range(5):
        out.append(Obl("complement_context_free_%d" % a, complement_context_free(a), dict(i=int, j=int, k=int),
                       lambda i, j, k: 0 <= i and i <= 16 and 0 <= j and j <= 16 and 0 <= k and k <= 16 and (tier != "quick" or (i + 2 * j + 3 * k) % 5 == 0), budget=900, cost=40,
                       desc="reverse complement of every 3-letter text (upper, lower and mixed case) over nucleotide alphabet #%d equals the letter-by-letter IUPAC "
                            "complement reversed: the complement of a letter never depends on which other letters are present (e.g. U without T)" % a,
                       bounds="up to 17^3 triplets%s x 3 case patterns (closed by the solver)" % (" (a fifth in the quick tier)" if tier == "quick" else ""),
                       examples=[dict(i=0, j=1, k=1), dict(i=5, j=0, k=0)]))
    out.append(Obl("enum_membership_agrees_with_lookup", enum_membership(), dict(e=int, n=int, v=int),
                   lambda e, n, v: 0 <= e and e <= 5 and 0 <= n and n <= (40 if tier == "quick" else 90) and 0 <= v and v <= 6, budget=900, cost=40,
                   desc="has_name / has_value of Biotype, CDSFrame, CDSPhase, Strand, SequenceType, Alphabet answer True exactly when Enum[name] / Enum(value) succeeds, for "
                        "every member name, alias and near-miss spelling (hyphen / underscore / case / suffix variants)",
                   bounds="6 enumerations x up to %d names x 7 spellings (closed by the solver)" % (41 if tier == "quick" else 91), examples=[dict(e=0, n=3, v=1)]))
    out.append(Obl("codon_registry_under_pressure", registry_pressure(), dict(n_bad=int, probe=int),
                   lambda n_bad, probe: 0 <= n_bad and n_bad <= 12 and 0 <= probe and probe <= (1 if tier == "quick" else 7), budget=900, cost=60,
                   desc="after all 4096 IUPAC triplets and 0..12 rejected strings plus one further unseen string have gone through Codon(), the start/stop tables, "
                        "singleton identity and every answer of held codons are unchanged",
                   bounds="4096 triplets + 0..12 rejected strings + 1 unseen string (counts closed by the solver)", examples=[dict(n_bad=3, probe=0)]))
    out.append(Obl("reverse_complement_long_mixed_case", long_reverse_complement(), dict(a=int, e=int, d=int, phase=int),
                   lambda a, e, d, phase: 0 <= a and a <= 4 and 10 <= e and e <= (13 if tier == "quick" else 17) and -1 <= d and d <= 1 and 0 <= phase and phase <= 1,
                   budget=900, cost=60,
                   desc="reverse complement of long mixed-case sequences (every letter of the alphabet in both cases) equals the letter-by-letter IUPAC complement "
                        "reversed, case preserved, and is an involution up to U~T",
                   bounds="5 nucleotide alphabets x lengths 2^e-1, 2^e, 2^e+1 for e = 10..%d x 2 letter phases (closed by the solver)" % (13 if tier == "quick" else 17),
                   examples=[dict(a=0, e=12, d=1, phase=0)]))
    if True:
        for first in range(16):
            out.append(Obl("codon_class_iupac_%s" % LETTERS[first], codon_class(LETTERS), {"i": int, "j": int, "k": int},
                           (lambda first: (lambda i, j, k: i == first and 0 <= j and j <= 15 and 0 <= k and k <= 15))(first),
                           budget=300, cost=6,
                           desc="real Codon class on all 256 IUPAC triplets starting with %s" % LETTERS[first],
                           bounds="256 triplets", examples=[dict(i=first, j=1, k=2)]))
    return out
