"""Shared harness helpers: symbolic block layouts, reference block-walk oracles, position-set membership,
structural well-formedness. Everything here is straight-line arithmetic over vlib.sym combinators (never forks).
Imports without crosshair (replayer)."""
import inscripta.biocantor.location  # noqa: F401  (import order: location before parent)
from inscripta.biocantor.location.location_impl import CompoundInterval, EmptyLocation, SingleInterval
from inscripta.biocantor.location.strand import Strand

from vlib.sym import ALL, AND, ANY, IFF, ITE, MAX, MIN, NOT, OR, SUM  # noqa: F401

PLUS, MINUS, UNSTRANDED = Strand.PLUS, Strand.MINUS, Strand.UNSTRANDED


def strand_of(plus):
    return Strand.PLUS if plus else Strand.MINUS


def sname(strand):
    return {Strand.PLUS: "plus", Strand.MINUS: "minus", Strand.UNSTRANDED: "unstr"}[strand]


# ---------------------------------------------------------------- layouts
def layout_params(k, prefix=""):
    """ordered symbolic variables of a k-block layout: first start, lengths, gaps"""
    p = {prefix + "s0": int}
    for i in range(k):
        p[prefix + "l%d" % i] = int
    for i in range(1, k):
        p[prefix + "g%d" % i] = int
    return p


def layout_blocks(k, kw, prefix=""):
    """[(start, end)] ascending by construction: start_i = end_{i-1} + g_i"""
    out = []
    cur = kw[prefix + "s0"]
    for i in range(k):
        if i > 0:
            cur = out[-1][1] + kw[prefix + "g%d" % i]
        out.append((cur, cur + kw[prefix + "l%d" % i]))
    return out


def layout_pre(k, kw, prefix="", min_len=0, min_gap=0, max_len=None):
    """python-level conjunction (forks are harmless in preconditions: each conjunct is a simple bound)"""
    if not kw[prefix + "s0"] >= 0:
        return False
    for i in range(k):
        if not kw[prefix + "l%d" % i] >= min_len:
            return False
        if max_len is not None and not kw[prefix + "l%d" % i] <= max_len:
            return False
    for i in range(1, k):
        if not kw[prefix + "g%d" % i] >= min_gap:
            return False
    return True


def make_location(blocks, strand, parent=None, force_compound=False):
    if len(blocks) == 1 and not force_compound:
        return SingleInterval(blocks[0][0], blocks[0][1], strand, parent=parent)
    return CompoundInterval([b[0] for b in blocks], [b[1] for b in blocks], strand, parent=parent)


# ---------------------------------------------------------------- reference block walk
def ordered(blocks, strand):
    """blocks in 5'->3' order"""
    return list(blocks) if strand is Strand.PLUS else list(reversed(blocks))


def total_len(blocks):
    return SUM([e - s for s, e in blocks])


def walk_pos(blocks, strand, r):
    """parent position of the r-th base (5'->3') of the walk over `blocks` (ascending (start,end) pairs).
    Returns -1 when r is out of range."""
    plus = strand is Strand.PLUS
    seq = ordered(blocks, strand)
    cums = []
    cum = 0
    for s, e in seq:
        cums.append(cum)
        cum = cum + (e - s)
    out = -1
    for (s, e), c in reversed(list(zip(seq, cums))):
        here = (s + (r - c)) if plus else (e - 1 - (r - c))
        out = ITE(AND(r >= c, r < c + (e - s)), here, out)
    return ITE(r < 0, -1, out)


def rel_of_pos(blocks, strand, p):
    """relative index of parent position p in the walk: FIRST block in 5'->3' order containing p; -1 if none."""
    plus = strand is Strand.PLUS
    seq = ordered(blocks, strand)
    cums = []
    cum = 0
    for s, e in seq:
        cums.append(cum)
        cum = cum + (e - s)
    out = -1
    for (s, e), c in reversed(list(zip(seq, cums))):
        here = (c + (p - s)) if plus else (c + (e - 1 - p))
        out = ITE(AND(s <= p, p < e), here, out)
    return out


def member(p, blocks):
    """p covered by some block"""
    return OR(*[AND(s <= p, p < e) for s, e in blocks]) if blocks else False


def mult(p, blocks):
    """number of blocks covering p"""
    return SUM([ITE(AND(s <= p, p < e), 1, 0) for s, e in blocks]) if blocks else 0


def blocks_of(loc):
    """(start, end) pairs of a returned Location (EmptyLocation -> [])"""
    if loc is EmptyLocation():
        return []
    return [(b.start, b.end) for b in loc.blocks]


def is_empty_value(loc):
    return loc is EmptyLocation() or bool(len(loc) == 0)


def wellformed(loc, allow_overlap=False, allow_adjacent=False):
    """structural invariants of a returned, optimised Location: blocks sorted, 0 <= start < end, length = sum,
    no empty blocks, no mergeable-adjacent blocks (and no overlapping ones unless allowed)"""
    if loc is EmptyLocation():
        return True
    bl = blocks_of(loc)
    conds = [bl[0][0] >= 0, loc.start == bl[0][0], loc.end == MAX([b[1] for b in bl]), len(loc) == total_len(bl)]
    for s, e in bl:
        conds.append(s < e)
    # with overlapping blocks present, which blocks are list-neighbours depends on the tie-break of the sort: the "no mergeable-adjacent neighbours"
    # clause is only claimed for results whose blocks do not overlap
    any_overlap = OR(*[bl[i][1] > bl[j][0] for i in range(len(bl)) for j in range(i + 1, len(bl))]) if allow_overlap and len(bl) > 1 else False
    for (s1, e1), (s2, e2) in zip(bl, bl[1:]):
        conds.append(s1 <= s2)
        if allow_overlap:
            if not allow_adjacent:
                conds.append(OR(any_overlap, e1 != s2))
        else:
            conds.append(e1 <= s2 if allow_adjacent else e1 < s2)
    if type(loc) is CompoundInterval:
        conds.append(len(bl) >= 2)
    return AND(*conds)


def same_blocks(bl1, bl2):
    if len(bl1) != len(bl2):
        return False
    return AND(*[AND(a[0] == b[0], a[1] == b[1]) for a, b in zip(bl1, bl2)]) if bl1 else True


# ---------------------------------------------------------------- parents (hand-built mirrors of io.parser.seq_to_parent /
# seq_chunk_to_parent, so that harnesses do not depend on the importability of io.models; C04 exercises the real ones)
GENOME40 = "ATGAAACCCGGGTTTTAGATCGATTACGCTAGGCATCGAT"  # 40 nt


def chrom_parent(seq=GENOME40, name="chr1"):
    from inscripta.biocantor.parent import Parent, SequenceType
    from inscripta.biocantor.sequence import Alphabet, Sequence

    return Parent(sequence=Sequence(seq, Alphabet.NT_STRICT, type=SequenceType.CHROMOSOME, id=name),
                  location=SingleInterval(0, len(seq), Strand.PLUS))


def chunk_parent(w, L, seq=None, name="chr1", strand=Strand.PLUS):
    """sequence chunk [w, w+L) of chromosome `name`; w may be symbolic, L and the chunk's sequence are concrete"""
    from inscripta.biocantor.parent import Parent, SequenceType
    from inscripta.biocantor.sequence import Alphabet, Sequence

    if seq is None:
        seq = (GENOME40 * (L // 40 + 1))[:L]
    assert len(seq) == L
    chunk_id = name + ":chunk"
    return Parent(
        id=chunk_id,
        sequence=Sequence(seq, Alphabet.NT_STRICT, id=chunk_id, type=SequenceType.SEQUENCE_CHUNK,
                          parent=Parent(location=SingleInterval(w, w + L, strand,
                                                                parent=Parent(id=name, sequence_type=SequenceType.CHROMOSOME)))))


def DEQ(a, b):
    """deep equality of plain containers whose leaves may be symbolic ints (non-forking: one conjunction)"""
    conds = []

    def rec(x, y):
        if isinstance(x, dict) and isinstance(y, dict):
            if set(x) != set(y):
                conds.append(False)
                return
            for k in x:
                rec(x[k], y[k])
        elif isinstance(x, (list, tuple)) and isinstance(y, (list, tuple)):
            if len(x) != len(y):
                conds.append(False)
                return
            for u, v in zip(x, y):
                rec(u, v)
        elif isinstance(x, (set, frozenset)) and isinstance(y, (set, frozenset)):
            conds.append(x == y)
        else:
            conds.append(x == y)

    rec(a, b)
    return AND(*conds) if conds else True
