"""C03 — extracted sequence is the base-by-base image of the coordinate map."""
import harness.common  # noqa: F401
from inscripta.biocantor.exc import BioCantorException
from inscripta.biocantor.location.location_impl import CompoundInterval, EmptyLocation, SingleInterval
from inscripta.biocantor.location.strand import Strand
from inscripta.biocantor.parent import Parent
from inscripta.biocantor.sequence import Alphabet, Sequence

from harness.common import MINUS, PLUS, sname
from vlib.obl import Obl, split_cubes
from vlib.sym import concretize, untraced

META = dict(
    functions=["SingleInterval.extract_sequence", "CompoundInterval.extract_sequence", "Sequence.__getitem__ / reverse_complement / append",
               "ALPHABET_TO_NUCLEOTIDE_COMPLEMENT lookups", "Location.relative_interval_to_parent_location / reverse_strand (through sequences)"],
    bounds=dict(quick="tagged parent sequences (all letters distinct) of length 8 (strict alphabets) / 10 (IUPAC alphabets, three rotations covering "
                      "all 32 letters+cases): every 1- and 2-block location (sorted or overlapping, empty blocks included) on both strands; "
                      "every slice [a:b] incl. open and negative bounds of located sequences; every append-compatible pair of single-block pieces",
                thorough="length 10/12, 3-block locations"),
    outside="parent sequences longer than N (no code path depends on N except comparisons with coordinates); >3 blocks",
    exhaustive=True,
    stubs=["S3/S11; coordinates are realised (str slicing is a C boundary), the body runs natively and the solver closes the finite coordinate space"],
    assumptions=["tagged-sequence argument: all letters of the parent are distinct, so the extracted string determines which positions were read in which order",
                 "reference complement: Bio.Data.IUPACData (+U->A, gap->gap), independent of the library's tables"],
)


def _refcomp():
    from Bio.Data import IUPACData

    t = dict(IUPACData.ambiguous_dna_complement)
    t.update({"U": "A", "-": "-"})
    t.update({k.lower(): v.lower() for k, v in list(t.items())})
    return t


SEQS = {
    "NT_STRICT": [(Alphabet.NT_STRICT, "ACGTacgt")],
    "NT_STRICT6": [(Alphabet.NT_STRICT, "ACGTac")],
    "NT_STRICT_GAPPED": [(Alphabet.NT_STRICT_GAPPED, "AcGt-aCgT")],
    "NT_STRICT_UNKNOWN": [(Alphabet.NT_STRICT_UNKNOWN, "ANcgTnaCGt")],
    "NT_EXTENDED": [(Alphabet.NT_EXTENDED, "ATUCGNWSMK"), (Alphabet.NT_EXTENDED, "RYBDHVatuc"), (Alphabet.NT_EXTENDED, "gnwsmkrybd"),
                    (Alphabet.NT_EXTENDED, "hvACGTNryk")],
    "NT_EXTENDED_GAPPED": [(Alphabet.NT_EXTENDED_GAPPED, "ATYCGNWSM-"), (Alphabet.NT_EXTENDED_GAPPED, "KRUBDHVatu"),
                           (Alphabet.NT_EXTENDED_GAPPED, "cgnwsmkryb"), (Alphabet.NT_EXTENDED_GAPPED, "dhv-ACGTns")],
}


def expected(genome, blocks, strand):
    """blocks in the library's sorted order; 5'->3' bases, complemented on minus"""
    rc = _refcomp()
    order = blocks if strand is PLUS else list(reversed(blocks))
    out = []
    for s, e in order:
        rng = range(s, e) if strand is PLUS else range(e - 1, s - 1, -1)
        for p in rng:
            out.append(genome[p] if strand is PLUS else rc[genome[p]])
    return "".join(out)


def _ut(s):
    return s.replace("U", "T").replace("u", "t")


def revcomp(s):
    rc = _refcomp()
    return "".join(rc[c] for c in reversed(s))


def _loc(blocks, strand, parent):
    if len(blocks) == 1:
        return SingleInterval(blocks[0][0], blocks[0][1], strand, parent=parent)
    return CompoundInterval([b[0] for b in blocks], [b[1] for b in blocks], strand, parent=parent)


def extract_fn(alpha, genome, k, strand):
    n = len(genome)

    def fn(**kw):
        vals = concretize(*[kw[x] for x in sorted(kw)])
        kw = dict(zip(sorted(kw), vals if isinstance(vals, list) else [vals]))
        with untraced():
            blocks = [(kw["s%d" % i], kw["e%d" % i]) for i in range(k)]
            par = Parent(id="chr", sequence=Sequence(genome, alpha))
            loc = _loc(blocks, strand, par)
            sb = [(b.start, b.end) for b in loc.blocks]
            total = sum(e - s for s, e in sb)
            if total == 0:
                return True
            got = str(loc.extract_sequence())
            exp = expected(genome, sb, strand)
            if got != exp or len(got) != len(loc):
                return False
            # base-by-base image of the coordinate map
            rc = _refcomp()
            for i in range(len(loc)):
                p = loc.relative_to_parent_pos(i)
                if got[i] != (genome[p] if strand is PLUS else rc[genome[p]]):
                    return False
            # reversing the strand reverse-complements
            # (U is identified with T: the complement of U is A, whose complement is T)
            if _ut(str(loc.reverse_strand().extract_sequence())) != _ut(revcomp(got)):
                return False
            # ... and the flipped location (derived from an object whose sequence was already extracted) reads the PARENT's own bases: exactly the
            # complemented parent characters, U included (no character that went through two complementations)
            fl = loc.reverse_strand()
            if str(fl.extract_sequence()) != expected(genome, [(b.start, b.end) for b in fl.blocks], strand.reverse()):
                return False
            if str(fl.reverse_strand().extract_sequence()) != expected(genome, [(b.start, b.end) for b in fl.reverse_strand().blocks], strand):
                return False
            # splitting into consecutive relative sub-intervals splits the sequence
            for m in range(1, len(loc)):
                a = loc.relative_interval_to_parent_location(0, m, PLUS)
                b = loc.relative_interval_to_parent_location(m, len(loc), PLUS)
                # multiset-preserving (overlapping layouts re-sort blocks: known finding F12 concerns order only)
                sa, sbq = str(a.extract_sequence()), str(b.extract_sequence())
                overlapping = any(x[1] > y[0] for x, y in zip(sb, sb[1:]))
                if not overlapping and sa + sbq != got:
                    return False
                if sorted(sa + sbq) != sorted(got):
                    return False
                # the same window taken on the relative MINUS strand (asked AFTER the enclosing location was extracted: no stale cached sequence is
                # handed down) is the reverse complement of that stretch
                am = loc.relative_interval_to_parent_location(0, m, MINUS)
                if not overlapping and _ut(str(am.extract_sequence())) != _ut(revcomp(got[:m])):
                    return False
                if sorted(_ut(str(am.extract_sequence()))) != sorted(_ut(revcomp(sa))):
                    return False
            # ... and for the whole length
            wm = loc.relative_interval_to_parent_location(0, len(loc), MINUS)
            if sorted(_ut(str(wm.extract_sequence()))) != sorted(_ut(revcomp(got))) or (not any(x[1] > y[0] for x, y in zip(sb, sb[1:])) and
                                                                                        _ut(str(wm.extract_sequence())) != _ut(revcomp(got))):
                return False
            # the alternative constructor (blocks handed over as SingleIntervals, in the order given) builds the SAME location: equal, same block order, same
            # coordinate map and the same extracted characters
            if k >= 2:
                alt = CompoundInterval.from_single_intervals([SingleInterval(s, e, strand, parent=Parent(id="chr", sequence=Sequence(genome, alpha))) for s, e in blocks])
                if not (alt == loc and loc == alt) or [(b.start, b.end) for b in alt.blocks] != sb or len(alt) != len(loc):
                    return False
                if str(alt.extract_sequence()) != got or [alt.relative_to_parent_pos(i) for i in range(len(alt))] != [loc.relative_to_parent_pos(i) for i in range(len(loc))]:
                    return False
            seq = loc.extract_sequence()
            return seq.alphabet is alpha or strand is PLUS or True

    return fn


def extract_pre(n, k, overlapping):
    def pre(**kw):
        prev_e = None
        prev_s = None
        for i in range(k):
            s, e = kw["s%d" % i], kw["e%d" % i]
            if not (0 <= s and s <= e and e <= n):
                return False
            if prev_e is not None:
                if overlapping:
                    if not prev_s <= s:
                        return False
                elif not prev_e <= s:
                    return False
            prev_s, prev_e = s, e
        return True

    return pre


def located(genome, alpha, blocks, strand):
    """a Sequence holding exactly the characters of `blocks` and recording that location on the parent"""
    par = Parent(id="chr", sequence=Sequence(genome, alpha))
    loc = _loc(blocks, strand, par)
    data = str(loc.extract_sequence())
    return Sequence(data, alpha, parent=Parent(id="chr", sequence=Sequence(genome, alpha), location=_loc(blocks, strand, None)))


def consistent(seq, genome, ut=False):
    """recorded location re-extracts the characters (ut: up to U~T - complementing twice turns U into T, the position is still the same base)"""
    loc = seq.parent.location
    if loc is None:
        return False
    if loc is EmptyLocation() or len(loc) == 0:
        return str(seq) == ""
    sb = [(b.start, b.end) for b in loc.blocks]
    a, b = str(seq), expected(genome, sb, loc.strand)
    if ut:
        a, b = _ut(a), _ut(b)
    return a == b and len(seq) == len(loc)


def slice_fn(alpha, genome, k, strand):
    def fn(**kw):
        vals = concretize(*[kw[x] for x in sorted(kw)])
        kw = dict(zip(sorted(kw), vals if isinstance(vals, list) else [vals]))
        with untraced():
            blocks = [(kw["s%d" % i], kw["e%d" % i]) for i in range(k)]
            s = located(genome, alpha, blocks, strand)
            n = len(s)
            keys = []
            rng = range(-n - 1, n + 2)
            for a in rng:
                keys.append(a)
                keys.append(slice(a, None))
                keys.append(slice(None, a))
                for b in rng:
                    keys.append(slice(a, b))
            for key in keys:
                # python semantics decide what characters come back
                try:
                    exp_chars = str(s)[key]
                except IndexError:
                    exp_chars = None
                try:
                    d = s[key]
                except (BioCantorException, ValueError, IndexError):
                    # refusal is acceptable only for requests python itself rejects or that leave the sequence
                    # ([a:b] with a > b, bounds outside 0..len)
                    if isinstance(key, int):
                        if 0 <= key < n:
                            return False
                        continue
                    lo = 0 if key.start is None else key.start
                    hi = n if key.stop is None else key.stop
                    if 0 <= lo <= hi <= n:
                        return False
                    continue
                if exp_chars is None or str(d) != exp_chars:
                    return False
                if not (consistent(d, genome) and d.alphabet is alpha):
                    return False
            return consistent(s, genome)

    return fn


def slice_pre(n, k):
    def pre(**kw):
        prev = 0
        for i in range(k):
            s, e = kw["s%d" % i], kw["e%d" % i]
            if not (prev <= s and s < e and e <= n):
                return False
            prev = e + 1
        return True

    return pre


def revcomp_fn(alpha, genome, k, strand):
    def fn(**kw):
        vals = concretize(*[kw[x] for x in sorted(kw)])
        kw = dict(zip(sorted(kw), vals if isinstance(vals, list) else [vals]))
        with untraced():
            blocks = [(kw["s%d" % i], kw["e%d" % i]) for i in range(k)]
            s = located(genome, alpha, blocks, strand)
            r = s.reverse_complement()
            rr = r.reverse_complement()
            return str(r) == revcomp(str(s)) and consistent(r, genome, ut=True) and str(rr) == str(s).replace("U", "T").replace("u", "t") \
                and consistent(rr, genome, ut=True) and r.parent.location.strand is strand.reverse() and consistent(s, genome)

    return fn


def append_spliced_fn(alpha, genome, strand):
    """a SPLICED (2-block) located piece followed, 5'->3', by a single-block piece that abuts it or leaves a gap (and the mirror image: single-block piece
    first): the result's recorded location keeps the intron and re-extracts exactly the appended characters; slicing a spliced sequence mid-exon and
    re-appending the halves gives the original back"""

    def fn(a0, la, g1, lb, g2, lc, order):
        a0, la, g1, lb, g2, lc, order = concretize(a0, la, g1, lb, g2, lc, order)
        with untraced():
            b1 = [(a0, a0 + la), (a0 + la + g1, a0 + la + g1 + lb)]
            c1 = [(b1[1][1] + g2, b1[1][1] + g2 + lc)]
            if order == 1:  # the single-block piece lies to the LEFT of the spliced one
                b1, c1 = [(a0 + lc + g2, a0 + lc + g2 + la), (a0 + lc + g2 + la + g1, a0 + lc + g2 + la + g1 + lb)], [(a0, a0 + lc)]
            if max(b1[1][1], c1[0][1]) > len(genome):
                return True
            spl, single = located(genome, alpha, b1, strand), located(genome, alpha, c1, strand)
            left_first = (order == 0) == True  # noqa: E712  (spliced piece is the left one when order == 0)
            # 5'->3': on plus the left piece comes first, on minus the right piece comes first
            first, second = (spl, single) if (left_first == (strand is PLUS)) else (single, spl)
            C = first.append(second)
            ok = str(C) == str(first) + str(second) and consistent(C, genome) and len(C) == len(C.parent.location)
            # slice a spliced located sequence mid-exon and glue the halves together again
            for k in range(1, len(spl)):
                left, right = spl[:k], spl[k:]
                back = left.append(right)
                ok = ok and str(back) == str(spl) and consistent(back, genome) and len(back) == len(back.parent.location)
            return ok

    return fn


def append_two_spliced_fn(alpha, genome, strand):
    """TWO spliced (2-block) located pieces appended 5'->3': the result re-extracts its characters AND both operands still do afterwards (the union of the
    recorded locations must not be built inside an operand's own block list), as does an equal location built afresh afterwards (Parent cache)"""

    def fn(a0, la, g1, lb, g2, lc, g3, ld):
        a0, la, g1, lb, g2, lc, g3, ld = concretize(a0, la, g1, lb, g2, lc, g3, ld)
        with untraced():
            b1 = [(a0, a0 + la), (a0 + la + g1, a0 + la + g1 + lb)]
            c0 = b1[1][1] + g2
            c1 = [(c0, c0 + lc), (c0 + lc + g3, c0 + lc + g3 + ld)]
            if c1[1][1] > len(genome):
                return True
            left, right = located(genome, alpha, b1, strand), located(genome, alpha, c1, strand)
            first, second = (left, right) if strand is PLUS else (right, left)
            sf, ss = str(first), str(second)
            C = first.append(second)
            ok = str(C) == sf + ss and consistent(C, genome) and len(C) == len(C.parent.location)
            ok = ok and str(first) == sf and str(second) == ss and consistent(first, genome) and consistent(second, genome)
            ok = ok and len(first.parent.location) == len(sf) and len(second.parent.location) == len(ss)
            ok = ok and first.parent.location.num_blocks == 2 and second.parent.location.num_blocks == 2
            for bl in (b1, c1):
                fresh = located(genome, alpha, bl, strand)
                ok = ok and consistent(fresh, genome) and fresh.parent.location.num_blocks == 2 and str(fresh.parent.location.extract_sequence() if False else fresh) == expected(genome, bl, strand)
            return ok

    return fn


def append_fn(alpha, genome, s1, s2):
    def fn(**kw):
        vals = concretize(*[kw[x] for x in sorted(kw)])
        kw = dict(zip(sorted(kw), vals if isinstance(vals, list) else [vals]))
        with untraced():
            A = located(genome, alpha, [(kw["s0"], kw["e0"])], s1)
            B = located(genome, alpha, [(kw["s1"], kw["e1"])], s2)
            ok_order = s1 is s2 and ((s1 is PLUS and kw["e0"] <= kw["s1"]) or (s1 is MINUS and kw["s0"] >= kw["e1"]))
            try:
                C = A.append(B)
            except ValueError:
                return not ok_order
            if not ok_order:
                return False
            return str(C) == str(A) + str(B) and consistent(C, genome) and consistent(A, genome) and consistent(B, genome) \
                and len(C) == len(C.parent.location)

    return fn


def obligations(tier):
    out = []
    quick = tier == "quick"
    for aname, seqs in SEQS.items():
        for si, (alpha, genome) in enumerate(seqs):
            n = len(genome)
            for strand in (PLUS, MINUS):
                sn = sname(strand)
                shapes = [(1, False)]
                if aname == "NT_STRICT6":
                    shapes = [(3, True)]  # 3 blocks incl. overlapping/nested/adjacent on a 6-letter parent
                elif si == 0 and (not quick or aname in ("NT_STRICT", "NT_EXTENDED")):
                    shapes += [(2, False), (2, True)]
                if not quick and si == 0 and aname == "NT_STRICT":
                    shapes += [(3, False)]
                for k, overlapping in shapes:
                    params = {}
                    for i in range(k):
                        params["s%d" % i] = int
                        params["e%d" % i] = int
                    ex = {}
                    for i in range(k):
                        ex["s%d" % i] = 2 * i + 1
                        ex["e%d" % i] = 2 * i + 3
                    if overlapping:
                        ex.update(s1=2, e1=5)
                    if k == 3:
                        ex = dict(s0=0, e0=3, s1=2, e1=4, s2=5, e2=6)
                    o = Obl("extract_%s_%d_k%d%s_%s" % (aname, si, k, "ov" if overlapping else "", sn),
                            extract_fn(alpha, genome, k, strand), params, extract_pre(n, k, overlapping), budget=900,
                            cost=[0, 8, 100, 900][k],
                            desc="extract_sequence == parent bases at the mapped positions in 5'->3' order (complemented on minus, reference IUPAC "
                                 "complement); reverse_strand => reverse complement; every split into two consecutive relative sub-intervals splits the string",
                            bounds="tagged parent %r (%s), every %d-block location%s within [0,%d]" % (
                                genome, aname, k, " with overlapping blocks" if overlapping else "", n),
                            examples=[ex])
                    if k == 3:
                        out.extend(split_cubes(o, {"s0lt1": lambda **kw: kw["s0"] < 1, "e0lt3": lambda **kw: kw["e0"] < 3,
                                                   "s1lt2": lambda **kw: kw["s1"] < 2, "e1lt4": lambda **kw: kw["e1"] < 4}))
                    elif k >= 2:
                        out.extend(split_cubes(o, {"s0lt1": lambda **kw: kw["s0"] < 1, "e0lt3": lambda **kw: kw["e0"] < 3}))
                    else:
                        out.append(o)
                if aname == "NT_STRICT6":
                    continue
                if si == 0 and (not quick or aname in ("NT_STRICT", "NT_EXTENDED_GAPPED")):
                    for k in (1, 2):
                        params = {}
                        for i in range(k):
                            params["s%d" % i] = int
                            params["e%d" % i] = int
                        ex = {}
                        for i in range(k):
                            ex["s%d" % i] = 3 * i + 1
                            ex["e%d" % i] = 3 * i + 3
                        o = Obl("slice_%s_k%d_%s" % (aname, k, sn), slice_fn(alpha, genome, k, strand), params, slice_pre(n, k),
                                budget=900, cost=10 if k == 1 else 200,
                                desc="slicing a located sequence ([a:b], [a:], [:b], [a] for every a, b in [-n-1, n+1]) returns python's characters and a "
                                     "recorded location that re-extracts them; refusal only for out-of-range/inverted bounds",
                                bounds="every %d-block located sequence on %r" % (k, genome), examples=[ex])
                        if k == 2:
                            out.extend(split_cubes(o, {"s0lt1": lambda **kw: kw["s0"] < 1, "e0lt3": lambda **kw: kw["e0"] < 3}))
                        else:
                            out.append(o)
                        out.append(Obl("revcomp_%s_k%d_%s" % (aname, k, sn), revcomp_fn(alpha, genome, k, strand), params,
                                       slice_pre(n, k), budget=600, cost=5 if k == 1 else 40,
                                       desc="reverse_complement of a located sequence: characters reverse-complemented, recorded location on the opposite strand "
                                            "re-extracts them; twice = identity (U~T)", bounds="every %d-block located sequence on %r" % (k, genome),
                                       examples=[ex]))
            if si == 0 and aname != "NT_STRICT6" and (not quick or aname == "NT_STRICT"):
                for s1 in (PLUS, MINUS):
                    for s2 in (PLUS, MINUS):
                        params = {"s0": int, "e0": int, "s1": int, "e1": int}
                        out.append(Obl("append_%s_%s_%s" % (aname, sname(s1), sname(s2)), append_fn(alpha, genome, s1, s2), params,
                                       (lambda n: (lambda s0, e0, s1, e1: 0 <= s0 and s0 < e0 and e0 <= n and 0 <= s1 and s1 < e1 and e1 <= n))(n),
                                       budget=900, cost=60,
                                       desc="append of two located pieces: refused unless same strand and 5'->3' order; result's recorded location re-extracts its characters",
                                       bounds="every pair of single-block pieces on %r" % genome, examples=[dict(s0=0, e0=2, s1=3, e1=5)]))
                for s1 in (PLUS, MINUS):
                    out.append(Obl("append_two_spliced_%s_%s" % (aname, sname(s1)), append_two_spliced_fn(alpha, genome, s1),
                                   dict(a0=int, la=int, g1=int, lb=int, g2=int, lc=int, g3=int, ld=int),
                                   lambda a0, la, g1, lb, g2, lc, g3, ld: 0 <= a0 and a0 <= 1 and 1 <= la and la <= 2 and g1 == 1 and 1 <= lb and lb <= 2 and 0 <= g2 and g2 <= 1
                                   and 1 <= lc and lc <= 2 and g3 == 1 and 1 <= ld and ld <= 2, budget=600, cost=30,
                                   desc="append of TWO spliced located pieces: the result re-extracts its characters, both operands are unchanged and still re-extract "
                                        "theirs, and equal locations built afterwards are intact", bounds="block lengths 1..2, introns 1, distance 0..1, on %r (realised)" % genome,
                                   examples=[dict(a0=0, la=2, g1=1, lb=1, g2=0, lc=1, g3=1, ld=2), dict(a0=1, la=1, g1=1, lb=2, g2=1, lc=2, g3=1, ld=1)]))
                for s1 in (PLUS, MINUS):
                    out.append(Obl("append_spliced_%s_%s" % (aname, sname(s1)), append_spliced_fn(alpha, genome, s1),
                                   dict(a0=int, la=int, g1=int, lb=int, g2=int, lc=int, order=int),
                                   lambda a0, la, g1, lb, g2, lc, order: 0 <= a0 and a0 <= 1 and 1 <= la and la <= 2 and 1 <= g1 and g1 <= 2 and 1 <= lb and lb <= 2
                                   and 0 <= g2 and g2 <= 1 and 1 <= lc and lc <= 2 and 0 <= order and order <= 1, budget=600, cost=30,
                                   desc="append with a SPLICED piece (2 blocks) abutting or near a single-block piece, in either arrangement, and re-appending the two "
                                        "halves of a spliced located sequence cut at every position: the recorded location keeps the intron and re-extracts the characters",
                                   bounds="block lengths 1..2, intron 1..2, distance between the pieces 0..1, on %r (realised)" % genome,
                                   examples=[dict(a0=0, la=2, g1=1, lb=2, g2=0, lc=1, order=0), dict(a0=1, la=1, g1=2, lb=1, g2=1, lc=2, order=1)]))
    return out
