"""Reference reading-frame model for CDS codons (independent of gene/cds.py).

Walk the exons 5'->3'. At the first exon, and whenever an exon's annotated frame differs from the running frame
(= number of bases of the current incomplete codon), drop the incomplete codon and skip `frame` bases. Emit every complete
triple. Block lengths and frames are CONCRETE here (driver-enumerated); block starts may be symbolic, so the emitted
positions are (possibly symbolic) integer terms built without any branching.
"""
from inscripta.biocantor.location.strand import Strand

STD_TABLE = None


def ref_codons(blocks, strand, frames):
    """blocks: ascending [(start, end)] with CONCRETE lengths (end - start known: pass lengths separately via `lens`)"""
    raise NotImplementedError


def ref_codon_positions(starts, lens, strand, frames):
    """starts: per-block start (symbolic or int), lens: concrete ints, frames: concrete ints (plus-strand block order).
    returns list of codons, each a list of 3 positions (terms), 5'->3'."""
    k = len(starts)
    plus = strand is Strand.PLUS
    order = list(range(k)) if plus else list(range(k - 1, -1, -1))
    cur, codons, running, first = [], [], 0, True
    for i in order:
        f, n = frames[i], lens[i]
        bases = [(starts[i] + j) if plus else (starts[i] + n - 1 - j) for j in range(n)]
        if first or f != running:
            cur = []
            bases = bases[f:]
            running = 0
        first = False
        for b in bases:
            cur.append(b)
            if len(cur) == 3:
                codons.append(cur)
                cur = []
        running = len(cur)
    return codons


def consistent_frames(lens, strand, f0):
    """frames (plus-strand block order) describing ONE uninterrupted reading frame that starts with offset f0"""
    k = len(lens)
    plus = strand is Strand.PLUS
    order = list(range(k)) if plus else list(range(k - 1, -1, -1))
    frames = [0] * k
    run = None
    for idx, i in enumerate(order):
        if idx == 0:
            frames[i] = f0
            run = max(lens[i] - f0, 0) % 3
        else:
            frames[i] = run
            run = (run + lens[i]) % 3
    return frames


def std_table():
    global STD_TABLE
    if STD_TABLE is None:
        from Bio.Data import CodonTable

        t = CodonTable.unambiguous_dna_by_id[1]
        d = dict(t.forward_table)
        for s in t.stop_codons:
            d[s] = "*"
        STD_TABLE = d
    return STD_TABLE


START_CODONS = {0: {"ATG"}, 1: {"ATG", "TTG", "CTG"}, 11: {"ATG", "TTG", "CTG", "ATT", "ATC", "ATA", "GTG"}}
COMP = {"A": "T", "C": "G", "G": "C", "T": "A"}


def codon_strings(codons, genome, strand):
    """concrete positions -> codon strings read from the genome (complemented on the minus strand)"""
    out = []
    for c in codons:
        s = "".join(genome[int(p)] for p in c)
        if strand is Strand.MINUS:
            s = "".join(COMP[x] for x in s)
        out.append(s)
    return out


def ref_translate(cstrs, table=0, truncate=False):
    t = std_table()
    out = []
    for i, c in enumerate(cstrs):
        if i == 0 and c in START_CODONS[table]:
            out.append("M")
        else:
            out.append(t[c])
        if truncate and t[c] == "*" and i != len(cstrs) - 1:
            break
    return "".join(out)
