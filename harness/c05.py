"""C05 — CDS codons, frame bookkeeping and translation follow one reading-frame model."""
import itertools

import harness.common  # noqa: F401
from inscripta.biocantor.exc import BioCantorException, LocationOverlapException
from inscripta.biocantor.gene.cds import CDSInterval
from inscripta.biocantor.gene.cds_frame import CDSFrame
from inscripta.biocantor.gene.codon import TranslationTable

from harness.cdsmodel import codon_strings, consistent_frames, ref_codon_positions, ref_translate, START_CODONS, std_table
from harness.common import AND, MINUS, NOT, OR, PLUS, EmptyLocation, chrom_parent, make_location, sname
from vlib.obl import Obl
from vlib.sym import concretize, untraced

META = dict(
    functions=[
        "CDSInterval.__init__/chromosome_codon_locations/chunk_relative_codon_locations/_scan_codon_locations/"
        "_prepare_single_exon_window_for_scan_codon_locations/_prepare_multi_exon_window_for_scan_codon_locations/"
        "_calculate_frame_offset/scan_chromosome_codon_locations/_convert_chromosome_start_end_to_relative_window/"
        "_expand_coordinates_to_codons/extract_sequence/translate/scan_codons/num_codons/has_valid_stop/has_in_frame_stop/"
        "has_canonical_start_codon/construct_frames_from_location",
        "CDSFrame.shift/to_phase, CDSPhase.to_frame", "Location.scan_windows", "Codon.translate",
    ],
    bounds=dict(
        quick="1 exon (length 1..7) and 2 exons (lengths 1..4 each, driver-enumerated), all 3/9 annotated frame vectors "
              "(symbolic, closed by the solver), both strands; first start and gap are UNBOUNDED symbolic integers "
              "(gap >= 0, so 0-bp gaps included); windows: symbolic chromosome start/end; sequence legs on a 40-nt genome",
        thorough="3 exons (lengths 1..4, all 27 frame vectors), 2 exons lengths 1..7; windows on 2 exons",
    ),
    outside=">3 exons; exon length >7 (frame logic depends on lengths mod 3 and on emptiness after trimming, both inside the bound); "
            "overlapping CDS blocks; expand_window_to_partial_codons with non-zero/inconsistent frames (only soundness claimed there)",
    stubs=["S1", "S2", "S3 Bio.Seq native", "S4", "S5", "S6", "S11"],
    assumptions=["reference reading-frame model harness/cdsmodel.py (walk, resynchronise on frame disagreement)",
                 "standard genetic code read from Bio.Data.CodonTable at run time"],
)


def _mk(lens, strand, kw, frames, parent=None):
    starts, cur = [], kw["s0"]
    for i, n in enumerate(lens):
        if i > 0:
            cur = cur + lens[i - 1] + kw["g%d" % i]
        starts.append(cur)
    ends = [s + n for s, n in zip(starts, lens)]
    cds = CDSInterval(starts, ends, strand, [CDSFrame(f) for f in frames], guid=31, parent_or_seq_chunk_parent=parent)
    return starts, ends, cds


def _frames_from(kw, k):
    return [int(kw["f%d" % i]) for i in range(k)]


def _same_codons(locs, exp, strand):
    if len(locs) != len(exp):
        return False
    conds = []
    for loc, e in zip(locs, exp):
        if loc.strand is not strand:
            return False
        conds.append(len(loc) == 3)
        for i in range(3):
            conds.append(loc.relative_to_parent_pos(i) == e[i])
    return AND(*conds) if conds else True


def codon_locations(lens, strand):
    k = len(lens)

    def fn(**kw):
        frames = _frames_from(kw, k)
        starts, ends, cds = _mk(lens, strand, kw, frames)
        exp = ref_codon_positions(starts, lens, strand, frames)
        try:
            locs = cds.chromosome_codon_locations
        except (ValueError, BioCantorException):
            return len(exp) == 0  # a CDS without any complete codon may be refused (with ValueError or one of the library's own exception types)
        return AND(_same_codons(locs, exp, strand), cds.num_codons == len(exp))

    return fn


def window_codons(lens, strand, expand):
    k = len(lens)

    def fn(**kw):
        frames = _frames_from(kw, k)
        starts, ends, cds = _mk(lens, strand, kw, frames)
        ws, we = kw["ws"], kw["we"]
        exp_all = ref_codon_positions(starts, lens, strand, frames)
        try:
            locs = list(cds.scan_chromosome_codon_locations(ws, we, expand_window_to_partial_codons=expand))
        except (ValueError, BioCantorException):
            # refusal is acceptable when the window keeps no complete codon
            inside_any = OR(*[AND(*[AND(ws <= p, p < we) for p in c]) for c in exp_all]) if exp_all else False
            return NOT(inside_any)
        # every returned codon is a model codon (soundness); when not expanding: exactly the codons fully inside
        got = [[loc.relative_to_parent_pos(i) for i in range(3)] for loc in locs]
        for loc in locs:
            if len(loc) != 3:
                return False
        conds = []
        for g in got:
            conds.append(OR(*[AND(g[0] == c[0], g[1] == c[1], g[2] == c[2]) for c in exp_all]) if exp_all else False)
        for c in exp_all:
            inside = AND(*[AND(ws <= p, p < we) for p in c])
            present = OR(*[AND(g[0] == c[0], g[1] == c[1], g[2] == c[2]) for g in got]) if got else False
            if expand:
                conds.append(OR(NOT(inside), present))
            else:
                conds.append(inside == present)
        # 5'->3' order, no duplicates
        for a, b in zip(got, got[1:]):
            conds.append(a[0] < b[0] if strand is PLUS else a[0] > b[0])
        return AND(*conds) if conds else True

    return fn


def frames_uninterrupted(k, strand):
    """construct_frames_from_location(loc, f) describes one uninterrupted reading frame: symbolic lengths"""

    def fn(**kw):
        f0 = int(kw["f0"])
        lens = [kw["l%d" % i] for i in range(k)]
        bl, cur = [], kw["s0"]
        for i in range(k):
            if i > 0:
                cur = bl[-1][1] + kw["g%d" % i]
            bl.append((cur, cur + lens[i]))
        loc = make_location(bl, strand)
        frames = CDSInterval.construct_frames_from_location(loc, CDSFrame(f0))
        if len(frames) != k:
            return False
        order = list(range(k)) if strand is PLUS else list(range(k - 1, -1, -1))
        conds = [frames[order[0]] is CDSFrame(f0)]
        run = lens[order[0]] - f0
        for i in order[1:]:
            conds.append(frames[i].value == run % 3)
            run = run + lens[i]
        return AND(*conds)

    return fn


def frames_history(strand):
    """construct_frames_from_location is a pure function of (location, start frame): a result stays what it was when the function is called again for
    another location / offset, and editing a returned list (callers model frameshifts that way) does not change later results (real caches active)"""
    CFG = [((a, b, c), f) for a in (4, 5, 6) for b in (3, 4) for c in (5, 9, 10) for f in (0, 1, 2)]

    def model(lens, f):
        order = list(range(3)) if strand is PLUS else [2, 1, 0]
        out = [None] * 3
        out[order[0]] = f
        run = lens[order[0]] - f
        for i in order[1:]:
            out[i] = run % 3
            run += lens[i]
        return out

    def build(lens):
        bl, cur = [], 2
        for n in lens:
            bl.append((cur, cur + n))
            cur += n + 3
        return make_location(bl, strand)

    def fn(i, j, edit):
        i, j, edit = concretize(i, j, edit)
        with untraced():
            (l1, f1), (l2, f2) = CFG[i], CFG[j]
            r1 = CDSInterval.construct_frames_from_location(build(l1), CDSFrame(f1))
            snap = [x.value for x in r1]
            if snap != model(l1, f1):
                return False
            r2 = CDSInterval.construct_frames_from_location(build(l2), CDSFrame(f2))
            if [x.value for x in r2] != model(l2, f2) or [x.value for x in r1] != snap:
                return False
            if edit:
                r2[edit % 3] = r2[edit % 3].shift(1)  # a caller edits the list it was given
            r3 = CDSInterval.construct_frames_from_location(build(l2), CDSFrame(f2))
            r4 = CDSInterval.construct_frames_from_location(build(l1), CDSFrame(f1))
            return [x.value for x in r3] == model(l2, f2) and [x.value for x in r4] == snap and [x.value for x in r1] == snap

    return fn, len(CFG)


GENOME = "TTGTGATGCAACACATCAGTAGGGTTGATAATTTCTGCAT"  # 40 nt: the first codons reachable from the small start offsets are TTG TGT GTG TGA GAT ATG (plus strand) and, read from
# the minus strand around positions 8..19, CAA/CAC/CAT/CAG = reverse complements of TTG GTG ATG CTG (alternative starts of tables 1 / 11) and stops


def sequence_legs(lens, strand):
    k = len(lens)

    def fn(**kw):
        names = sorted(kw)
        vals = concretize(*[kw[n] for n in names])
        kw = dict(zip(names, vals if isinstance(vals, list) else [vals]))
        with untraced():
            return body(**kw)

    def body(**kw):
        frames = _frames_from(kw, k)
        par = chrom_parent(GENOME)
        starts, ends, cds = _mk(lens, strand, kw, frames, parent=par)
        starts = [int(s) for s in starts]
        exp = ref_codon_positions(starts, lens, strand, frames)
        cstr = codon_strings(exp, GENOME, strand)
        want = "".join(cstr)
        if not exp:
            # a CDS without a complete codon: every question is answered with the empty/False value or refused with a documented exception -
            # never an internal error (StopIteration, IndexError, ...)
            for q, empty in ((lambda: str(cds.extract_sequence()), ""), (lambda: str(cds.translate()), ""), (lambda: cds.num_codons, 0),
                             (lambda: cds.has_canonical_start_codon, False), (lambda: cds.has_start_codon_in_specific_translation_table(TranslationTable.PROKARYOTE), False),
                             (lambda: cds.has_valid_stop, False), (lambda: cds.has_in_frame_stop, False), (lambda: [str(c) for c in cds.scan_codons()], [])):
                try:
                    if q() != empty:
                        return False
                except (ValueError, BioCantorException):
                    pass
            return True
        # fast path on a fresh object
        fast = str(cds.extract_sequence())
        # codon path on a twin whose codon tuple was listed first
        par2 = chrom_parent(GENOME)
        _, _, twin = _mk(lens, strand, kw, frames, parent=par2)
        codons = twin.chunk_relative_codon_locations
        slow = "".join(str(c.extract_sequence()) for c in codons)
        cached = str(twin.extract_sequence())
        ok = fast == want and slow == want and cached == want and len(fast) % 3 == 0 and cds.num_codons == len(exp)
        if not ok:
            return False
        # translation, start/stop predicates
        for table, tt in ((0, TranslationTable.DEFAULT), (1, TranslationTable.STANDARD), (11, TranslationTable.PROKARYOTE)):
            for trunc in (False, True):
                if str(cds.translate(truncate_at_in_frame_stop=trunc, translation_table=tt)) != ref_translate(cstr, table, trunc):
                    return False
        prot = ref_translate(cstr, 0, False)
        if cds.has_valid_stop != (cstr[-1] in ("TAA", "TAG", "TGA")):
            return False
        if cds.has_in_frame_stop != ("*" in prot[:-1]):
            return False
        if cds.has_canonical_start_codon != (cstr[0] == "ATG"):
            return False
        if [str(c) for c in cds.scan_codons()] != cstr:
            return False
        return True

    return fn


AMB_GENOME = "ATGAAATAACCNGGGTTTNTGTAGRAYATGTGACCCNNNAAATAA"  # NT_EXTENDED: stops followed by ambiguous codons, ambiguous codons before stops, an ambiguous start
IUPAC_EXP = {"A": "A", "C": "C", "G": "G", "T": "T", "R": "AG", "Y": "CT", "S": "CG", "W": "AT", "K": "GT", "M": "AC", "B": "CGT", "D": "AGT", "H": "ACT", "V": "ACG",
             "N": "ACGT"}


def _ref_translate_amb(cstrs, table, truncate, strict):
    """reference for sequences with ambiguity codes: the translation walks the codons 5'->3' and STOPS looking at the first in-frame stop when truncating;
    returns the protein or the string 'ValueError' (strict translation meeting a non-strict codon before the walk ends)"""
    t = std_table()
    out = []
    for i, c in enumerate(cstrs):
        strict_codon = all(ch in "ACGT" for ch in c)
        if i == 0 and c in START_CODONS[table]:
            out.append("M")
        else:
            if strict and not strict_codon:
                return "ValueError"
            if strict_codon:
                out.append(t[c])
            else:
                # the library's extended table knows some, not all, ambiguous codons with a unique translation: X or that amino acid
                aas = {t["".join(x)] for x in itertools.product(*[IUPAC_EXP[ch] for ch in c])}
                out.append("X" + (aas.pop() if len(aas) == 1 else ""))
        if truncate and strict_codon and t[c] == "*" and i != len(cstrs) - 1:
            break
    return out


def _matches(got, ref):
    if ref == "ValueError" or got == "ValueError":
        return got == ref
    return len(got) == len(ref) and all(g in r for g, r in zip(got, ref))


def ambiguous_translation(strand):
    def fn(s, n):
        s, n = concretize(s, n)
        with untraced():
            from inscripta.biocantor.location.location_impl import SingleInterval
            from inscripta.biocantor.parent import Parent, SequenceType
            from inscripta.biocantor.sequence import Alphabet, Sequence

            genome = AMB_GENOME if strand is PLUS else "".join({"A": "T", "C": "G", "G": "C", "T": "A", "N": "N", "R": "Y", "Y": "R"}[c] for c in reversed(AMB_GENOME))
            par = Parent(sequence=Sequence(genome, Alphabet.NT_EXTENDED, type=SequenceType.CHROMOSOME, id="chrA"), location=SingleInterval(0, len(genome), PLUS))
            if strand is PLUS:
                a, b = s, s + 3 * n
            else:
                a, b = len(genome) - s - 3 * n, len(genome) - s
            if a < 0 or b > len(genome):
                return True
            cds = CDSInterval([a], [b], strand, [CDSFrame.ZERO], parent_or_seq_chunk_parent=par, guid=9)
            cstr = [AMB_GENOME[s + 3 * i: s + 3 * i + 3] for i in range(n)]
            for table, tt in ((0, TranslationTable.DEFAULT), (1, TranslationTable.STANDARD), (11, TranslationTable.PROKARYOTE)):
                for trunc in (False, True):
                    for strict in (True, False):
                        try:
                            got = str(cds.translate(truncate_at_in_frame_stop=trunc, translation_table=tt, strict=strict))
                        except ValueError:
                            got = "ValueError"
                        if not _matches(got, _ref_translate_amb(cstr, table, trunc, strict)):
                            return False
            # scan_codons and the sequence itself spell the codons
            return [str(c) for c in cds.scan_codons()] == cstr and str(cds.extract_sequence()) == "".join(cstr)

    return fn


def _params(k, extra=None, frames=True):
    p = {"s0": int}
    for i in range(1, k):
        p["g%d" % i] = int
    if frames:
        for i in range(k):
            p["f%d" % i] = int
    p.update(extra or {})
    return p


def _pre(k, maxs0=None, maxg=None, frames=True):
    def pre(**kw):
        if not kw["s0"] >= 0:
            return False
        if maxs0 is not None and not kw["s0"] <= maxs0:
            return False
        for i in range(1, k):
            if not kw["g%d" % i] >= 0:
                return False
            if maxg is not None and not kw["g%d" % i] <= maxg:
                return False
        if frames:
            for i in range(k):
                if not (0 <= kw["f%d" % i] and kw["f%d" % i] <= 2):
                    return False
        return True

    return pre


def obligations(tier):
    out = []
    quick = tier == "quick"
    shapes = [(n,) for n in range(1, 8)] + list(itertools.product(range(1, 5), repeat=2))
    if quick:
        shapes += [(4, 5, 3), (5, 5, 2), (2, 2, 2), (1, 3, 4), (2, 1, 4), (1, 1, 3)]  # 3-exon representatives incl. 1-bp inner exons (all 64 shapes: thorough)
        shapes += [(2, 1, 4, 4)]  # 4 exons: two re-synchronisations, the first one dropping a 1-bp exon
    else:
        shapes += list(itertools.product(range(1, 5), repeat=3)) + [(4, 5, 3), (5, 5, 2)]
        shapes += [(2, 1, 4, 4), (3, 1, 1, 4), (1, 2, 1, 5), (4, 1, 2, 3), (2, 2, 1, 4)]
        shapes += [s for s in itertools.product(range(1, 8), repeat=2) if max(s) > 4]
    for strand in (PLUS, MINUS):
        sn = sname(strand)
        for lens in shapes:
            k = len(lens)
            tag = "%s_%s" % ("-".join(map(str, lens)), sn)
            ex = dict({"s0": 2}, **{"g%d" % i: 3 for i in range(1, k)}, **{"f%d" % i: 0 for i in range(k)})
            ex2 = dict(ex, f0=1, **({"f1": 2} if k > 1 else {}))
            out.append(Obl("codons_" + tag, codon_locations(lens, strand), _params(k), _pre(k), budget=60 + 40 * 3 ** k,
                           cost=0.6 * 3 ** k,
                           desc="chromosome_codon_locations == complete codons of the reading-frame model (walk 5'->3', skip start offset, "
                                "resynchronise on frame disagreement), base by base; num_codons; refusal only when no complete codon",
                           bounds="exon lengths %s, frames in 0..2 each (closed by solver), first start and gaps unbounded" % (lens,),
                           examples=[ex, ex2]))
        # windows (2-exon and 1-exon representative lengths)
        wshapes = [(5,), (7,), (2, 3), (3, 1)] if quick else [(5,), (6,), (7,)] + list(itertools.product((1, 2, 3, 4), repeat=2))
        for lens in wshapes:
            k = len(lens)
            for expand in (False, True):
                if quick and expand and k > 1:
                    continue  # 130-280 CPU-s each: thorough tier
                tag = "%s_%s_%s" % ("-".join(map(str, lens)), sn, "expand" if expand else "strict")
                ex = dict({"s0": 2, "ws": 3, "we": 9}, **{"g%d" % i: 3 for i in range(1, k)}, **{"f%d" % i: 0 for i in range(k)})
                out.append(Obl("window_" + tag, window_codons(lens, strand, expand), _params(k, {"ws": int, "we": int}),
                               (lambda k: (lambda **kw: _pre(k)(**kw) and 0 <= kw["ws"] and kw["ws"] < kw["we"]))(k),
                               budget=120 + 150 * 3 ** k, cost=(4 * 3 ** k) * (8 if expand and k > 1 else 1), consts=dict(n=sum(lens), plus=strand is PLUS, k=k),
                               desc="scan_chromosome_codon_locations(start,end%s): returned codons are model codons in 5'->3' order; "
                                    "%s" % (", expand" if expand else "",
                                            "every model codon fully inside the window is returned" if expand else
                                            "exactly the model codons fully inside the window"),
                               bounds="exon lengths %s, frames 0..2, unbounded offsets and window" % (lens,), examples=[ex]))
        # frames generated from a location: symbolic lengths
        for k in ((1, 2, 3) if quick else (1, 2, 3, 4)):
            p = {"s0": int, "f0": int}
            for i in range(k):
                p["l%d" % i] = int
            for i in range(1, k):
                p["g%d" % i] = int

            def pre(k=k, **kw):
                if not (kw["s0"] >= 0 and 0 <= kw["f0"] and kw["f0"] <= 2):
                    return False
                for i in range(k):
                    if not kw["l%d" % i] >= 3:
                        return False
                for i in range(1, k):
                    if not kw["g%d" % i] >= 1:
                        return False
                return True

            ex = dict({"s0": 0, "f0": 1}, **{"l%d" % i: 4 + i for i in range(k)}, **{"g%d" % i: 2 for i in range(1, k)})
            out.append(Obl("frames_from_location_k%d_%s" % (k, sn), frames_uninterrupted(k, strand), p, pre, budget=200, cost=3 * k,
                           desc="construct_frames_from_location(loc, f) yields the frames of ONE uninterrupted reading frame (no resynchronisation)",
                           bounds="%d blocks, SYMBOLIC lengths >= 3, gaps >= 1, start frame 0..2" % k, examples=[ex]))
        fh, ncfg = frames_history(strand)
        out.append(Obl("frames_history_%s" % sn, fh, dict(i=int, j=int, edit=int),
                       (lambda ncfg: (lambda i, j, edit: 0 <= i and i < ncfg and 0 <= j and j < ncfg and 0 <= edit and edit <= 3 and (not quick or ((i + 2 * j) % 3 == 0 and edit % 2 == 0))))(ncfg),
                       budget=600, cost=40,
                       desc="construct_frames_from_location called for one 3-block location/offset, then another, then both again (optionally after the caller edited a "
                            "returned list): every result equals the one-frame model and earlier results are not changed retroactively",
                       bounds="%d (lengths, offset) configurations, every ordered pair%s x 4 edit choices (realised, real memoisation)" % (ncfg, " with (i+2j) % 3 == 0, 2 edit choices" if quick else ""),
                       examples=[dict(i=1, j=1, edit=0), dict(i=4, j=10, edit=2)]))
        out.append(Obl("translate_ambiguous_%s" % sn, ambiguous_translation(strand), dict(s=int, n=int),
                       lambda s, n: 0 <= s and s <= 30 and 1 <= n and n <= 14, budget=600, cost=40,
                       desc="translation of CDSs on a genome with ambiguity codes (stops followed by ambiguous codons, ambiguous codons before stops): 3 tables x "
                            "truncate x strict each give the walk-until-stop model's protein or its refusal - a truncated translation never looks past the first "
                            "in-frame stop; scan_codons and extract_sequence spell the codons", bounds="every window of 1..14 codons at offsets 0..30 of a 44-nt NT_EXTENDED genome",
                       examples=[dict(s=0, n=6), dict(s=0, n=3), dict(s=9, n=4)]))
        # sequence legs: small realised offsets on a concrete 40-nt genome
        sshapes = [(6,), (7,), (3, 3), (4, 5), (2, 4), (5, 1)] if quick else \
            [(n,) for n in range(3, 10)] + list(itertools.product((1, 2, 3, 4, 5), repeat=2)) + [(3, 3, 3), (4, 2, 3), (2, 2, 2), (1, 4, 4)]
        for lens in sshapes:
            k = len(lens)
            tag = "%s_%s" % ("-".join(map(str, lens)), sn)
            ex = dict({"s0": 0}, **{"g%d" % i: 2 for i in range(1, k)}, **{"f%d" % i: 0 for i in range(k)})
            out.append(Obl("sequence_" + tag, sequence_legs(lens, strand), _params(k), _pre(k, maxs0=3, maxg=2),
                           budget=200 + 30 * 3 ** k, cost=3 ** k * 2,
                           desc="extract_sequence (fast path, codon path, cached path) == concatenated model codons; length % 3 == 0; "
                                "translate (3 tables x truncate) == standard-code translation with start rule; stop/start predicates; scan_codons",
                           bounds="exon lengths %s, frames 0..2, first start 0..3, gaps 0..2 (realised: concrete genome of 40 nt)" % (lens,),
                           examples=[ex]))
    return out
