"""C14 — BED12 export is valid BED and reproduces the interval in both coordinate modes."""
import harness.common  # noqa: F401
from inscripta.biocantor.gene.cds_frame import CDSFrame
from inscripta.biocantor.gene.feature import FeatureInterval
from inscripta.biocantor.gene.transcript import TranscriptInterval

from harness.common import (
    AND, MINUS, NOT, OR, PLUS, chunk_parent, layout_blocks, layout_params, layout_pre, sname,
)
from vlib.obl import Obl
from vlib.sym import concretize, untraced
from vlib.tok import untok

META = dict(
    functions=["TranscriptInterval.to_bed12", "FeatureInterval.to_bed12", "BED12.__str__", "RGB.__str__",
               "AbstractInterval.initialize_location / liftover_location_to_seq_chunk_parent (chunk mode)"],
    bounds=dict(quick="<=3 blocks, coding (CDS = any exon sub-span, driver-enumerated) or non-coding, both strands, both coordinate modes; "
                      "chunk of length 24 at a symbolic chromosome offset containing the interval; unbounded coordinates",
                thorough="<=4 blocks; chunk lengths 24 and 40"),
    outside=">4 blocks; chunk windows cutting the interval (C07); score/rgb values other than defaults and (7, RGB(1,2,3))",
    stubs=["S1", "S2", "S4", "S5", "S6", "S8 symbolic-token rendering for str(BED12)", "S11"],
    assumptions=["decimal rendering of ints is Python's (trusted); the 12-column reader in the harness is the independent BED reader"],
)
L = 24


def _cds_blocks(ex, a, b, co, ce):
    """CDS from genomic offset `co` inside exon a to offset `ce` inside exon b (offsets from the exon's own start)"""
    cds = []
    for i in range(a, b + 1):
        s, e = ex[i]
        cs = s + co if i == a else s
        en = s + ce if i == b else e
        cds.append((cs, en))
    return cds


def make(kind, k, strand, coding, kw, chunk, chunk_strand=PLUS):
    ex = layout_blocks(k, kw)
    par = chunk_parent(kw["w"], L, strand=chunk_strand) if chunk else None
    if kind == "tx":
        if coding:
            a, b = coding[:2]
            cds = _cds_blocks(ex, a, b, kw["co"], kw["ce"])
            frames = [CDSFrame.ZERO] * len(cds)
            if len(coding) > 2:  # 5'-partial CDS: the 5'-most CDS block carries start frame 1 or 2 (thick range must still be the CDS bounds)
                frames[0 if strand is PLUS else -1] = CDSFrame(coding[2])
            o = TranscriptInterval([x[0] for x in ex], [x[1] for x in ex], strand, [c[0] for c in cds], [c[1] for c in cds],
                                   frames, transcript_symbol="tx1", sequence_name="chr1", guid=5,
                                   parent_or_seq_chunk_parent=par)
        else:
            cds = None
            o = TranscriptInterval([x[0] for x in ex], [x[1] for x in ex], strand, transcript_symbol="tx1", sequence_name="chr1",
                                   guid=5, parent_or_seq_chunk_parent=par)
    else:
        cds = None
        o = FeatureInterval([x[0] for x in ex], [x[1] for x in ex], strand, feature_name="tx1", sequence_name="chr1", guid=5,
                            parent_or_seq_chunk_parent=par)
    return ex, cds, o


def pre_fn(k, coding, chunk, min_gap=1):
    def pre(**kw):
        if not layout_pre(k, kw, min_len=1, min_gap=min_gap):
            return False
        if chunk:
            end = kw["s0"] + sum(kw["l%d" % i] for i in range(k)) + sum(kw["g%d" % i] for i in range(1, k))
            if not (kw["w"] >= 0 and kw["w"] <= kw["s0"] and end <= kw["w"] + L):
                return False
        if coding:
            a, b = coding[:2]
            co, ce = kw["co"], kw["ce"]
            if not (0 <= co and co < kw["l%d" % a] and 0 < ce and ce <= kw["l%d" % b]):
                return False
            if a == b and not co < ce:
                return False
        return True

    return pre


def check_record(bed, ex, cds, strand, off, text_mode):
    """BED invariants + faithful decode; `off` = offset of the exported coordinate system (0 or chunk start)"""
    if text_mode:
        cols = str(bed).split("\t")
        if len(cols) != 12:
            return False
        chrom, start, end, name, score = cols[0], untok(cols[1]), untok(cols[2]), cols[3], cols[4]
        strand_s, ts, te, rgb, n = cols[5], untok(cols[6]), untok(cols[7]), cols[8], untok(cols[9])
        sizes = [untok(x) for x in cols[10].split(",")]
        starts = [untok(x) for x in cols[11].split(",")]
        if chrom != "chr1" or name != "tx1" or score != "0" or rgb != "0,0,0":
            return False
        if strand_s != ("+" if strand is PLUS else "-"):
            return False
    else:
        start, end, ts, te, n = bed.start, bed.end, bed.thick_start, bed.thick_end, bed.block_count
        sizes, starts = list(bed.block_sizes), list(bed.block_starts)
        if bed.chrom != "chr1" or bed.name != "tx1" or bed.strand is not strand:
            return False
    k = len(ex)
    if len(sizes) != k or len(starts) != k:
        return False
    conds = [n == k, start == ex[0][0] - off, end == ex[-1][1] - off, starts[0] == 0,
             starts[-1] + sizes[-1] == end - start]
    for i in range(k):
        conds.append(start + starts[i] == ex[i][0] - off)
        conds.append(sizes[i] == ex[i][1] - ex[i][0])
    for i in range(1, k):
        conds.append(starts[i - 1] < starts[i])
    if cds:
        conds += [ts == cds[0][0] - off, te == cds[-1][1] - off, start <= ts, ts <= te, te <= end]
    else:
        conds += [ts == 0, te == 0]
    return AND(*conds)


def bed_fn(kind, k, strand, coding, chunk_mode, text_mode):
    def fn(**kw):
        ex, cds, o = make(kind, k, strand, coding, kw, chunk_mode is not None)
        if chunk_mode == "chunk_rel":
            bed = o.to_bed12(chromosome_relative_coordinates=False)
            off = kw["w"]
        else:
            bed = o.to_bed12()
            off = 0
        return check_record(bed, ex, cds, strand, off, text_mode)

    return fn


def bed_minus_chunk_fn(kind, k, strand, coding):
    """chunk placed on the MINUS strand of the chromosome: chunk coordinates run backwards (position x -> w+L-1-x), the object's strand is reversed in the chunk
    view; the chunk-relative record is the mirrored source, the chromosome record is unchanged"""

    def fn(**kw):
        ex, cds, o = make(kind, k, strand, coding, kw, True, MINUS)
        w = kw["w"]
        mirror = lambda bl: [(w + L - e, w + L - s_) for s_, e in reversed(bl)]  # noqa: E731
        rel = check_record(o.to_bed12(chromosome_relative_coordinates=False), mirror(ex), mirror(cds) if cds else None, strand.reverse(), 0, False)
        return AND(rel, check_record(o.to_bed12(), ex, cds, strand, 0, False))

    return fn


def flag_truthiness_fn():
    """the coordinate-mode flag is a truth value: falsy non-bools (0, None) give the chunk-relative record and truthy ones (1) the chromosome record, column for
    column, on chunks of either strand and on chunks that cut the object. Realised leg."""

    def fn(s0, w, cstrand, coding):
        s0, w, cstrand, coding = concretize(s0, w, cstrand, coding)
        with untraced():
            par = lambda: chunk_parent(w, 12, strand=PLUS if cstrand == 0 else MINUS)  # noqa: E731
            ex = [(s0, s0 + 4), (s0 + 6, s0 + 11)]
            if coding:
                o = TranscriptInterval([e[0] for e in ex], [e[1] for e in ex], PLUS, [ex[0][0] + 1, ex[1][0]], [ex[0][1], ex[1][1] - 1], [CDSFrame.ZERO, CDSFrame.ZERO],
                                       transcript_symbol="tx1", sequence_name="chr1", guid=5, parent_or_seq_chunk_parent=par())
            else:
                o = FeatureInterval([e[0] for e in ex], [e[1] for e in ex], MINUS, feature_name="tx1", sequence_name="chr1", guid=5, parent_or_seq_chunk_parent=par())

            def rec(flag):
                try:
                    return str(o.to_bed12(chromosome_relative_coordinates=flag))
                except Exception as e:  # noqa
                    return type(e).__name__

            return rec(0) == rec(False) and rec(None) == rec(False) and rec(1) == rec(True) and rec("yes") == rec(True)

    return fn


def name_cross_class_fn(order):
    """the name column is looked up on the exported object itself: a name that is an attribute of ANOTHER class only is used literally, whatever objects of
    other classes were exported with that name before"""

    def fn(**kw):
        ex = layout_blocks(1, kw)
        f = FeatureInterval([ex[0][0]], [ex[0][1]], PLUS, feature_name="fn", feature_id="fid", sequence_name="chr9", guid=5)
        t = TranscriptInterval([ex[0][0]], [ex[0][1]], PLUS, transcript_symbol="ts", transcript_id="tid", sequence_name="chr9", guid=6)
        want = {("f", "transcript_symbol"): "transcript_symbol", ("t", "transcript_symbol"): "ts", ("f", "feature_name"): "fn", ("t", "feature_name"): "feature_name",
                ("t", None): "ts", ("f", None): "fn", ("f", "transcript_id"): "transcript_id", ("t", "transcript_id"): "tid", ("t", "feature_id"): "feature_id",
                ("f", "feature_id"): "fid", ("t", "id"): "tid", ("t", "name"): "ts", ("f", "id"): "fid", ("f", "name"): "fn", ("t", "guid"): None, ("f", "sequence_name"): "chr9"}
        ok = True
        for who, name in order:
            o = f if who == "f" else t
            for mode in (True, False) if False else (True,):
                b = o.to_bed12(chromosome_relative_coordinates=mode) if name is None else o.to_bed12(name=name, chromosome_relative_coordinates=mode)
                w_ = want[(who, name)] if want[(who, name)] is not None else getattr(o, name)
                ok = ok and b.name == w_ and str(b).split("\t")[3] == str(w_)
        return ok

    return fn


def both_modes_fn(kind, k, strand, coding, order):
    """two exports of the SAME object in different coordinate modes (either order) are each correct"""

    def fn(**kw):
        ex, cds, o = make(kind, k, strand, coding, kw, True)
        res = []
        for m in order:
            if m == "rel":
                res.append(check_record(o.to_bed12(chromosome_relative_coordinates=False), ex, cds, strand, kw["w"], False))
            else:
                res.append(check_record(o.to_bed12(), ex, cds, strand, 0, False))
        return AND(*res)

    return fn


def name_fallback_fn():
    def fn(**kw):
        ex = layout_blocks(1, kw)
        f = FeatureInterval([ex[0][0]], [ex[0][1]], PLUS, feature_name="fn", feature_id="fid", sequence_name="chr9", guid=5)
        from inscripta.biocantor.io.bed import RGB

        b1 = f.to_bed12(name="feature_id", score=7, rgb=RGB(1, 2, 3))
        b2 = f.to_bed12(name="literal name")
        cols = str(b1).split("\t")
        return AND(b1.name == "fid", b2.name == "literal name", cols[4] == "7", cols[8] == "1,2,3", cols[0] == "chr9",
                   untok(cols[1]) == ex[0][0], untok(cols[2]) == ex[0][1])

    return fn


def obligations(tier):
    out = []
    quick = tier == "quick"
    ks = [1, 2, 3] if quick else [1, 2, 3, 4]
    for strand in (PLUS, MINUS):
        sn = sname(strand)
        for k in ks:
            variants = [("feat", None), ("tx", None)]
            spans = [(a, b) for a in range(k) for b in range(a, k)]
            if quick and k == 3:
                spans = [(0, 2), (1, 1), (0, 1)]
            variants += [("tx", sp) for sp in spans]
            # 5'-partial CDS (start frame 1 / 2 on the 5'-most CDS block)
            variants += [("tx", (0, k - 1, f)) for f in ((1, 2) if (k <= 2 or not quick) else ())]
            for kind, coding in variants:
                for mode in (None, "chunk_chrom", "chunk_rel"):
                    for text in (False, True):
                        if text and (mode == "chunk_chrom" or (quick and k == 3 and coding not in (None, (0, 2)))):
                            continue
                        if coding and len(coding) > 2 and (text or (quick and mode) or mode == "chunk_chrom"):
                            continue
                        if quick and k == 3 and mode and coding and not (coding == (0, 2) and mode == "chunk_rel" and not text
                                                                         and strand is MINUS):
                            continue  # 30-90 CPU-s each (CDS construction on a chunk): thorough tier
                        if quick and k == 2 and mode == "chunk_chrom" and coding:
                            continue
                        params = dict(layout_params(k))
                        if mode:
                            params["w"] = int
                        if coding:
                            params.update(co=int, ce=int)
                        tag = "%s_k%d_%s_%s_%s_%s" % (kind, k, sn, ("cds%d-%d" % coding[:2] + ("f%d" % coding[2] if len(coding) > 2 else "")) if coding else "nc",
                                                     mode or "nochunk", "text" if text else "obj")
                        ex = {"s0": 103, "w": 100}
                        for i in range(k):
                            ex["l%d" % i] = 3
                        for i in range(1, k):
                            ex["g%d" % i] = 2
                        if coding:
                            ex.update(co=1, ce=2)
                        ex = {kk: v for kk, v in ex.items() if kk in params}
                        out.append(Obl("bed12_" + tag, bed_fn(kind, k, strand, coding, mode, text), params,
                                       pre_fn(k, coding, mode is not None), budget=(400 if (mode and coding) else 40 * k + 60),
                                       cost=(30 * k if (mode and coding) else (3 * k if mode else 1 + k)),
                                       stubs=dict(tokens=True) if text else {},
                                       desc="BED12 %s: blockCount/sizes/starts consistent, first start 0, ascending, last start+size == end-start, "
                                            "thick range inside [start,end] (0,0 when non-coding), decoded blocks/strand/name/CDS bounds == source "
                                            "in %s coordinates" % ("text (12 tab-separated columns read back)" if text else "record",
                                                                   "chunk" if mode == "chunk_rel" else "chromosome"),
                                       bounds="%d blocks (len>=1, gaps>=1)%s, unbounded ints" % (k, ", chunk length %d at symbolic offset" % L if mode else ""),
                                       examples=[ex]))
    for strand in (PLUS, MINUS):
        sn = sname(strand)
        # adjacent (0-bp gap) blocks are exported as they are, not merged
        for kind in ("feat", "tx"):
            for k in ((2, 3) if quick else (2, 3, 4)):
                params = dict(layout_params(k))
                ex = {"s0": 7}
                for i in range(k):
                    ex["l%d" % i] = 3
                for i in range(1, k):
                    ex["g%d" % i] = 0
                out.append(Obl("bed12_%s_k%d_%s_adjacent_obj" % (kind, k, sn), bed_fn(kind, k, strand, None, None, False), params,
                               pre_fn(k, None, False, min_gap=0), budget=120, cost=1 + k,
                               desc="BED12 record with 0-bp gaps between blocks: exported blocks are exactly the source blocks",
                               bounds="%d blocks (len>=1, gaps>=0), unbounded ints" % k, examples=[ex]))
        # both coordinate modes asked of the same object, in either order
        for kind, coding in (("feat", None), ("tx", None), ("tx", (0, 0))):
            for order in (("rel", "chrom", "rel"), ("chrom", "rel", "chrom")):
                k = 2
                params = dict(layout_params(k))
                params["w"] = int
                if coding:
                    params.update(co=int, ce=int)
                ex = {"s0": 103, "w": 100, "l0": 3, "l1": 3, "g1": 2}
                if coding:
                    ex.update(co=1, ce=2)
                out.append(Obl("bed12_%s_%s_%s_modes_%s" % (kind, "cds" if coding else "nc", sn, "-".join(order)),
                               both_modes_fn(kind, k, strand, coding, order), params, pre_fn(k, coding, True), budget=300,
                               cost=40 if coding else 8,
                               desc="exporting the same object in chunk-relative and chromosome mode (either order, repeated) gives each mode's correct record",
                               bounds="2 blocks on a chunk of length %d at symbolic offset" % L, examples=[ex]))
    # many blocks (size-dependent code paths start at some block count)
    for strand in (PLUS, MINUS):
        for kind, coding in (("feat", None), ("tx", (2, 14))):
            k = 17
            params = dict(layout_params(k))
            if coding:
                params.update(co=int, ce=int)
            ex = {"s0": 103}
            for i in range(k):
                ex["l%d" % i] = 3 + (i % 3)
            for i in range(1, k):
                ex["g%d" % i] = 2 + (i % 2)
            if coding:
                ex.update(co=1, ce=2)
            for text in ((False,) if quick else (False, True)):
                out.append(Obl("bed12_%s_k17_%s_%s_%s" % (kind, sname(strand), "cds" if coding else "nc", "text" if text else "obj"),
                               bed_fn(kind, k, strand, coding, None, text), params, pre_fn(k, coding, False), budget=600, cost=40,
                               stubs=dict(tokens=True) if text else {},
                               desc="BED12 of a 17-block %s%s: count/sizes/starts consistent, decoded blocks and thick range == source" % (
                                   kind, " whose CDS runs from exon 3 to exon 15" if coding else ""),
                               bounds="17 blocks (len>=1, gaps>=1), unbounded ints", examples=[ex]))
    orders = [(("f", "transcript_symbol"), ("t", None), ("t", "transcript_symbol")), (("t", "feature_name"), ("f", None), ("f", "feature_name")),
              (("t", "transcript_id"), ("f", "transcript_id"), ("t", "transcript_id")), (("f", "feature_id"), ("t", "feature_id"), ("f", "feature_id"), ("t", None)),
              (("t", "id"), ("t", "name"), ("f", "id"), ("f", "name"), ("t", "guid"), ("f", "sequence_name"))]  # names that are PROPERTIES / shared accessors
    for n, order in enumerate(orders):
        out.append(Obl("bed12_name_cross_class_%d" % n, name_cross_class_fn(order), {"s0": int, "l0": int}, lambda s0, l0: s0 >= 0 and l0 >= 1,
                       budget=60, cost=2, stubs=dict(tokens=True),
                       desc="name column across classes in one process, order %s: an attribute name of the OTHER class is used literally, an attribute of the exported "
                            "object is looked up, the default name is the object's own" % " -> ".join("%s(%s)" % (w_, nm or "default") for w_, nm in order),
                       bounds="1 block, feature and transcript exported alternately", examples=[dict(s0=3, l0=4)]))
    for strand in (PLUS, MINUS):
        for kind, coding, k in (("feat", None, 2), ("tx", (0, 1), 2), ("tx", (0, 0), 1)) if quick else (("feat", None, 2), ("tx", None, 2), ("tx", (0, 1), 2), ("tx", (0, 0), 1),
                                                                                                    ("tx", (1, 1), 2), ("tx", (0, 2), 3)):
            params = dict(layout_params(k))
            params["w"] = int
            if coding:
                params.update(co=int, ce=int)
            ex = {"s0": 103, "w": 100}
            for i in range(k):
                ex["l%d" % i] = 3
            for i in range(1, k):
                ex["g%d" % i] = 2
            if coding:
                ex.update(co=1, ce=2)
            out.append(Obl("bed12_minus_chunk_%s_k%d_%s_%s" % (kind, k, sname(strand), ("cds%d-%d" % coding) if coding else "nc"), bed_minus_chunk_fn(kind, k, strand, coding),
                           params, pre_fn(k, coding, True), budget=600, cost=60 if coding else 10,
                           desc="object on a chunk placed on the MINUS strand: the chunk-relative record is the mirrored source (blocks, strand, thick range = mirrored CDS "
                                "bounds), the chromosome record is the source", bounds="%d blocks inside a minus-strand chunk of length %d at symbolic offset" % (k, L),
                           examples=[ex, dict(ex, s0=101)]))
    out.append(Obl("bed12_mode_flag_is_a_truth_value", flag_truthiness_fn(), dict(s0=int, w=int, cstrand=int, coding=int),
                   lambda s0, w, cstrand, coding: 100 <= s0 and s0 <= 112 and 100 <= w and w <= 110 and 0 <= cstrand and cstrand <= 1 and 0 <= coding and coding <= 1,
                   budget=600, cost=30,
                   desc="to_bed12 with the coordinate-mode flag given as 0 / None / 1 / a non-empty string writes the same record as with False / True, on plus- and minus-"
                        "strand chunks that hold, cut or miss the object", bounds="2-block feature / coding transcript at 100..112, chunk of 12 nt at 100..110 x 2 chunk strands (realised)",
                   examples=[dict(s0=101, w=100, cstrand=1, coding=1), dict(s0=104, w=100, cstrand=0, coding=0)]))
    out.append(Obl("bed12_name_score_rgb", name_fallback_fn(), {"s0": int, "l0": int}, lambda s0, l0: s0 >= 0 and l0 >= 1,
                   budget=60, cost=2, stubs=dict(tokens=True), desc="name attribute lookup / literal fallback, score and rgb columns",
                   bounds="1 block", examples=[dict(s0=3, l0=4)]))
    return out
