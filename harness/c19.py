"""C19 — invalid input is refused with documented errors; nothing ill-formed is built."""
import harness.common  # noqa: F401
from inscripta.biocantor.exc import BioCantorException
from inscripta.biocantor.gene.cds import CDSInterval
from inscripta.biocantor.gene.cds_frame import CDSFrame, CDSPhase
from inscripta.biocantor.gene.collections import AnnotationCollection
from inscripta.biocantor.gene.feature import FeatureInterval, FeatureIntervalCollection
from inscripta.biocantor.gene.gene import GeneInterval
from inscripta.biocantor.gene.transcript import TranscriptInterval
from inscripta.biocantor.gene.variants import VariantInterval, VariantIntervalCollection
from inscripta.biocantor.location.location_impl import CompoundInterval, EmptyLocation, SingleInterval
from inscripta.biocantor.location.strand import Strand
from inscripta.biocantor.parent import Parent
from inscripta.biocantor.sequence import Alphabet, Sequence

from harness.common import AND, MINUS, NOT, OR, PLUS, UNSTRANDED, blocks_of, sname, total_len
from vlib.obl import Obl
from vlib.sym import concretize, untraced

META = dict(
    functions=["SingleInterval / CompoundInterval constructors and coordinate API on arbitrary integers and all three strands", "Location.scan_windows",
               "Parent constructor consistency checks", "Sequence constructor / reverse_complement / append validation",
               "CDSInterval / TranscriptInterval / FeatureInterval / GeneInterval / FeatureIntervalCollection / VariantInterval(Collection) / "
               "AnnotationCollection constructor argument checks", "exc.BioCantorException hierarchy"],
    bounds=dict(quick="every catalogue entry with UNCONSTRAINED symbolic integers (negative, inverted, huge), <=2 blocks, all strands incl. UNSTRANDED; "
                      "concrete boundary probes (zero-length requests, window == length, 1200-block locations, empty/duplicate children, wrong alphabets)",
                thorough="3-block entries"),
    outside="'where documented' cannot be decided mechanically: ValueError/TypeError are accepted at every call site; AttributeError, IndexError, KeyError, "
            "RecursionError, ZeroDivisionError, StopIteration/RuntimeError, UnboundLocalError, AssertionError are never accepted",
    stubs=["S1", "S2", "S3", "S4", "S5", "S6", "S11", "S12"],
    assumptions=["allowed refusals: BioCantorException subclasses, ValueError, TypeError, NotImplementedError"],
)
ALLOWED = (BioCantorException, ValueError, TypeError, NotImplementedError)
STRANDS = {0: PLUS, 1: MINUS, 2: UNSTRANDED}


def wf_location(loc):
    """structural invariant of any constructed location"""
    if loc is EmptyLocation():
        return True
    bl = blocks_of(loc)
    conds = [loc.start >= 0, loc.start <= loc.end, len(loc) == total_len(bl), len(loc) >= 0]
    for s, e in bl:
        conds.append(AND(0 <= s, s <= e))
    for (s1, e1), (s2, e2) in zip(bl, bl[1:]):
        conds.append(s1 <= s2)
    return AND(*conds)


def single_ctor(st):
    def fn(s, e):
        try:
            loc = SingleInterval(s, e, STRANDS[st])
        except ALLOWED:
            return NOT(AND(0 <= s, s <= e))
        return AND(0 <= s, s <= e, wf_location(loc))

    return fn


def compound_ctor(st):
    def fn(s0, e0, s1, e1):
        try:
            loc = CompoundInterval([s0, s1], [e0, e1], STRANDS[st])
            _ = loc.blocks
        except ALLOWED:
            return NOT(AND(0 <= s0, s0 <= e0, 0 <= s1, s1 <= e1))
        return AND(0 <= s0, s0 <= e0, 0 <= s1, s1 <= e1, wf_location(loc))

    return fn


def compound_ctor_lazy(st):
    """the constructor alone (without touching .blocks) must already refuse negative / inverted blocks"""

    def fn(s0, e0, s1, e1):
        try:
            CompoundInterval([s0, s1], [e0, e1], STRANDS[st])
        except ALLOWED:
            return NOT(AND(0 <= s0, s0 <= e0, 0 <= s1, s1 <= e1))
        return AND(0 <= s0, s0 <= e0, 0 <= s1, s1 <= e1)

    return fn


def compound_lengths():
    def fn(n, m):
        n, m = concretize(n, m)
        with untraced():
            try:
                CompoundInterval(list(range(0, 10 * n, 10)), list(range(5, 10 * m + 5, 10)), PLUS)
            except ALLOWED:
                return n != m or n == 0
            return n == m and n > 0

    return fn


def location_api(k, st, group=None):
    """every coordinate method with arbitrary integer arguments: a value or an allowed refusal, and results well-formed"""

    def fn(s0, l0, g, l1, a, b, c):
        strand = STRANDS[st]
        loc = SingleInterval(s0, s0 + l0, strand) if k == 1 else CompoundInterval([s0, s0 + l0 + g], [s0 + l0, s0 + l0 + g + l1], strand)
        ok = []
        calls = [
            lambda: loc.relative_to_parent_pos(a),
            lambda: loc.parent_to_relative_pos(a),
            lambda: loc.relative_interval_to_parent_location(a, b, PLUS),
            lambda: loc.relative_interval_to_parent_location(a, b, UNSTRANDED),
            lambda: loc.shift_position(a),
            lambda: loc.extend_absolute(a, b),
            lambda: loc.extend_relative(a, b),
            lambda: loc.reverse(),
            lambda: loc.reverse_strand(),
            lambda: loc.optimize_blocks(),
            lambda: loc.gaps_location(),
            lambda: loc.intersection(SingleInterval(a, a + c, PLUS)) if True else None,
            lambda: loc.minus(SingleInterval(a, a + c, MINUS), match_strand=False),
            lambda: loc.union(SingleInterval(a, a + c, strand)),
            lambda: loc.contains(SingleInterval(a, a + c, strand)),
            lambda: loc.distance_to(SingleInterval(a, a + c, strand)),
            lambda: loc.location_relative_to(SingleInterval(a, a + c, PLUS)),
            lambda: loc.parent_to_relative_location(SingleInterval(a, a + c, MINUS)),
        ]
        if group is not None:
            calls = calls[group::6]
        for f in calls:
            try:
                r = f()
            except ALLOWED:
                continue
            if isinstance(r, (SingleInterval, CompoundInterval)) or r is EmptyLocation():
                ok.append(wf_location(r))
        return AND(*ok) if ok else True

    return fn


def scan_windows_fn(k, st):
    def fn(s0, l0, g, l1, w, step, start):
        strand = STRANDS[st]
        loc = SingleInterval(s0, s0 + l0, strand) if k == 1 else CompoundInterval([s0, s0 + l0 + g], [s0 + l0, s0 + l0 + g + l1], strand)
        n = l0 if k == 1 else l0 + l1
        valid = AND(0 <= start, start < n, w >= 1, step >= 1, start + w <= n)
        try:
            it = loc.scan_windows(w, step, start)
            first = next(it)
        except StopIteration:
            return False
        except ALLOWED:
            return OR(NOT(valid), strand is UNSTRANDED)
        return AND(valid, strand is not UNSTRANDED, len(first) == w, wf_location(first))

    return fn


def parent_ctor():
    def fn(s, l, n, kind):
        kind = concretize(kind)
        loc = SingleInterval(s, s + l, PLUS)
        seq = Sequence("A" * 10, Alphabet.NT_STRICT)
        try:
            if kind == 0:
                p = Parent(id="a", location=SingleInterval(s, s + l, PLUS, parent="b"))
                return False
            if kind == 1:
                p = Parent(strand=MINUS, location=loc)
                return False
            if kind == 2:
                p = Parent(sequence=seq, location=loc)
                return AND(s + l <= 10, p.location.end <= 10)
            if kind == 3:
                p = Parent(sequence_type="x", location=SingleInterval(s, s + l, PLUS, parent=Parent(sequence_type="y")))
                return False
            if kind == 4:
                p = Parent(id="a", sequence=Sequence("ACGT", Alphabet.NT_STRICT, id="b"))
                return False
            p = Parent(id="a", sequence_type="t", strand=PLUS, location=loc)
            return AND(p.strand is PLUS, p.id == "a")
        except ALLOWED:
            return OR(kind in (0, 1, 3, 4), AND(kind == 2, s + l > 10))

    return fn


def sequence_checks():
    def fn(i):
        i = concretize(i)
        with untraced():
            cases = [
                (lambda: Sequence("ACGU", Alphabet.NT_STRICT), True),
                (lambda: Sequence("ACGT-", Alphabet.NT_STRICT), True),
                (lambda: Sequence("acgt", Alphabet.NT_STRICT), False),
                (lambda: Sequence("MKV*", Alphabet.AA).reverse_complement(), True),
                (lambda: Sequence("ACGT", Alphabet.NT_STRICT).append(Sequence("ACGT", Alphabet.NT_EXTENDED)), True),
                (lambda: Sequence("ACGT", Alphabet.NT_STRICT, type="a").append(Sequence("ACGT", Alphabet.NT_STRICT, type="b")), True),
                (lambda: Sequence("ACGT", Alphabet.NT_STRICT, parent=Parent(location=SingleInterval(0, 3, PLUS))), True),
                (lambda: Sequence("ACGT", Alphabet.NT_STRICT)[1:3], False),
                (lambda: Sequence("", Alphabet.NT_STRICT), False),
                (lambda: SingleInterval(0, 4, PLUS, parent=Parent(sequence=Sequence("MKVL", Alphabet.AA))).reverse_strand().extract_sequence(), True),
                (lambda: SingleInterval(0, 4, UNSTRANDED, parent=Parent(sequence=Sequence("ACGT", Alphabet.NT_STRICT))).extract_sequence(), True),
                (lambda: SingleInterval(0, 4, PLUS).extract_sequence(), True),
                (lambda: SingleInterval(0, 4, PLUS, parent="x").extract_sequence(), True),
            ]
            f, must_refuse = cases[i]
            try:
                f()
            except ALLOWED:
                return must_refuse
            return not must_refuse

    return fn


def cds_ctor():
    def fn(s0, e0, s1, e1, nf, st):
        nf, st = concretize(nf, st)
        frames = [CDSFrame.ZERO, CDSFrame.ONE, CDSFrame.TWO][:nf]
        try:
            c = CDSInterval([s0, s1], [e0, e1], STRANDS[st], frames, guid=1)
        except ALLOWED:
            return True
        # built: must be consistent
        return AND(nf == 2, 0 <= s0, s0 <= e0, 0 <= s1, s1 <= e1, c.start <= c.end, len(c) == (e0 - s0) + (e1 - s1), len(c) > 0)

    return fn


def cds_misc():
    def fn(i):
        i = concretize(i)
        with untraced():
            cases = [
                (lambda: CDSInterval([0], [0], PLUS, [CDSFrame.ZERO]), True),
                (lambda: CDSInterval([0, 5], [3, 9], PLUS, [CDSFrame.ZERO, CDSPhase.ONE]), True),
                (lambda: CDSInterval([0, 5], [3, 9], PLUS, [CDSPhase.ZERO, CDSPhase.ONE]).frames, False),
                (lambda: list(CDSInterval([0], [2], PLUS, [CDSFrame.ZERO]).chromosome_codon_locations), False),
                (lambda: CDSInterval([0, 5], [1, 6], PLUS, [CDSFrame.TWO, CDSFrame.ONE]).num_codons, None),
                (lambda: CDSInterval([0], [9], PLUS, [CDSFrame.ZERO]).extract_sequence(), True),
                (lambda: CDSInterval([0], [9], UNSTRANDED, [CDSFrame.ZERO]).chromosome_codon_locations, None),
                (lambda: list(CDSInterval([0], [9], PLUS, [CDSFrame.ZERO]).scan_chromosome_codon_locations(20, 30)), None),
                (lambda: list(CDSInterval([0], [9], PLUS, [CDSFrame.ZERO]).scan_chromosome_codon_locations(5, 2)), None),
                (lambda: CDSInterval([0], [9], PLUS, [CDSFrame.NONE]).num_codons, None),
                (lambda: CDSInterval([0], [9], PLUS, [CDSFrame.ZERO]).sequence_pos_to_cds(9), True),
            ]
            f, must_refuse = cases[i]
            try:
                f()
            except ALLOWED:
                return must_refuse is not False
            return must_refuse is not True

    return fn


def transcript_ctor():
    def fn(es, el, cs, cl, kind):
        kind = concretize(kind)
        try:
            if kind == 0:
                t = TranscriptInterval([es], [es + el], PLUS, [cs], [cs + cl], [CDSFrame.ZERO], guid=1)
                ok = AND(es >= 0, el >= 0, cl > 0, es <= cs, cs + cl <= es + el, t.cds is not None, t.cds_start == cs, t.cds_end == cs + cl)
                return ok
            if kind == 1:
                TranscriptInterval([es], [es + el], PLUS, [cs], None, [CDSFrame.ZERO], guid=1)
            elif kind == 2:
                TranscriptInterval([es], [es + el], PLUS, None, [cs + cl], [CDSFrame.ZERO], guid=1)
            elif kind == 3:
                TranscriptInterval([es], [es + el], PLUS, [cs], [cs + cl], None, guid=1)
            elif kind == 4:
                TranscriptInterval([es], [es + el], PLUS, [cs], [cs + cl], [CDSFrame.ZERO, CDSFrame.ONE], guid=1)
            elif kind == 5:
                TranscriptInterval([es, es + el + 2], [es + el], PLUS, guid=1)
            elif kind == 6:
                FeatureInterval([es, es + el + 2], [es + el], PLUS, guid=1)
            elif kind == 7:
                TranscriptInterval([es], [es + el], PLUS, [cs, cs + 1], [cs + cl], [CDSFrame.ZERO], guid=1)
            return False
        except ALLOWED:
            if kind == 0:
                return NOT(AND(es >= 0, el >= 0, cl > 0, es <= cs, cs + cl <= es + el))
            return True

    return fn


def collections_ctor():
    def fn(i):
        i = concretize(i)
        with untraced():
            t = lambda g, s=0: TranscriptInterval([s], [s + 5], PLUS, guid=g)  # noqa: E731
            f = lambda g, s=0: FeatureInterval([s], [s + 5], PLUS, guid=g)  # noqa: E731
            cases = [
                (lambda: GeneInterval([]), True),
                (lambda: FeatureIntervalCollection([]), True),
                (lambda: GeneInterval([t(1), t(1)]), True),
                (lambda: FeatureIntervalCollection([f(1), f(1)]), True),
                (lambda: GeneInterval([TranscriptInterval([0], [5], PLUS, guid=1, is_primary_tx=True), TranscriptInterval([0], [5], PLUS, guid=2, is_primary_tx=True)]), True),
                (lambda: VariantInterval(3, 3, "A", "SNV"), True),
                (lambda: VariantIntervalCollection([VariantInterval(3, 6, "A", "SNV", guid=1), VariantInterval(5, 8, "A", "SNV", guid=2)]), True),
                (lambda: VariantIntervalCollection([]), True),
                (lambda: AnnotationCollection(start=5), True),
                (lambda: AnnotationCollection(end=5), True),
                (lambda: AnnotationCollection(genes=[GeneInterval([t(1)], guid=7)]).query_by_position(3, 3), True),
                (lambda: AnnotationCollection(genes=[GeneInterval([t(1)], guid=7)]).query_by_position(-1, 3), True),
                (lambda: AnnotationCollection(genes=[GeneInterval([t(1)], guid=7)]).query_by_position(0, 30), True),
                (lambda: AnnotationCollection(genes=[GeneInterval([t(1)], guid=7), GeneInterval([t(2)], guid=7)]).hierarchical_children_guids, True),
                (lambda: AnnotationCollection().query_by_position(0, 5), True),
                (lambda: AnnotationCollection(genes=[GeneInterval([t(1)], guid=7)]).query_by_guids([99]).is_empty, False),
                (lambda: GeneInterval([t(1)], guid=7).get_merged_cds(), True),
                (lambda: GeneInterval([t(1)], guid=7).get_primary_protein(), False),
                (lambda: TranscriptInterval([0, 8], [5, 12], PLUS, [2, 8], [5, 12], [CDSFrame.ZERO, CDSFrame.ZERO], guid=1).get_3p_interval(), False),
                (lambda: TranscriptInterval([0, 8], [5, 12], MINUS, [0, 8], [5, 10], [CDSFrame.ZERO, CDSFrame.ZERO], guid=1).get_5p_interval() and
                 TranscriptInterval([0, 8], [5, 12], MINUS, [0, 8], [5, 10], [CDSFrame.ZERO, CDSFrame.ZERO], guid=1).get_3p_interval(), False),
                (lambda: t(1).get_5p_interval(), True),
                (lambda: t(1).get_spliced_sequence(), True),
                (lambda: GeneInterval([t(1)], guid=7).get_merged_transcript(), None),
            ]
            fcase, must_refuse = cases[i]
            try:
                fcase()
            except ALLOWED:
                return must_refuse is not False
            return must_refuse is not True

    return fn


N_COLL = 23


def deep_location():
    """locations with very many blocks answer every in-range position without an internal RecursionError"""

    def fn(n):
        n = concretize(n)
        with untraced():
            import sys

            depth, f = 0, sys._getframe()
            while f is not None:
                depth, f = depth + 1, f.f_back
            old = sys.getrecursionlimit()
            sys.setrecursionlimit(depth + 1000)  # the interpreter's default head-room, whatever the harness raised it to
            try:
                return body(n)
            finally:
                sys.setrecursionlimit(old)

    def body(n):
        if True:
            c = CompoundInterval([3 * i for i in range(n)], [3 * i + 2 for i in range(n)], MINUS)
            ok = c.relative_to_parent_pos(len(c) - 1) == 0 and c.parent_to_relative_pos(0) == len(c) - 1
            sub = c.relative_interval_to_parent_location(len(c) - 3, len(c), PLUS)
            return ok and len(sub) == 3 and len(c.optimize_blocks().blocks) == n

    return fn


def obligations(tier):
    out = []
    for st in (0, 1, 2):
        sn = sname(STRANDS[st])
        out.append(Obl("single_ctor_%s" % sn, single_ctor(st), dict(s=int, e=int), None, budget=120, cost=2,
                       desc="SingleInterval(s,e): built iff 0<=s<=e, otherwise a documented refusal", bounds="all integers",
                       examples=[dict(s=3, e=2), dict(s=-1, e=4), dict(s=0, e=0)]))
        out.append(Obl("compound_ctor_%s" % sn, compound_ctor(st), dict(s0=int, e0=int, s1=int, e1=int), None, budget=300, cost=15,
                       desc="CompoundInterval of 2 arbitrary blocks (+ block access): well-formed or refused", bounds="all integers",
                       examples=[dict(s0=0, e0=5, s1=3, e1=2), dict(s0=-5, e0=-1, s1=0, e1=3), dict(s0=7, e0=9, s1=0, e1=3)]))
        out.append(Obl("compound_ctor_eager_%s" % sn, compound_ctor_lazy(st), dict(s0=int, e0=int, s1=int, e1=int), None, budget=300, cost=10,
                       desc="the CompoundInterval constructor itself never returns an object with a negative or inverted block", bounds="all integers",
                       examples=[dict(s0=0, e0=5, s1=3, e1=2), dict(s0=-5, e0=-1, s1=0, e1=3)]))
        for k, grp in ((1, None), (2, 0), (2, 1), (2, 2), (2, 3), (2, 4), (2, 5)):
            out.append(Obl("location_api_k%d%s_%s" % (k, "" if grp is None else "_part%d" % grp, sn), location_api(k, st, grp),
                           dict(s0=int, l0=int, g=int, l1=int, a=int, b=int, c=int),
                           lambda s0, l0, g, l1, a, b, c: s0 >= 0 and l0 >= 0 and g >= 0 and l1 >= 0, budget=900, cost=150 * k,
                           desc="18 location methods called with arbitrary integer arguments: each returns a well-formed value or raises a documented exception "
                                "(never AttributeError/IndexError/KeyError/...)", bounds="%d block(s), all integer arguments incl. negative" % k,
                           examples=[dict(s0=2, l0=4, g=1, l1=3, a=1, b=3, c=2), dict(s0=2, l0=4, g=1, l1=3, a=-1, b=99, c=-3), dict(s0=0, l0=0, g=0, l1=0, a=0, b=0, c=0)]))
        for k in (1, 2):
            out.append(Obl("scan_windows_k%d_%s" % (k, sn), scan_windows_fn(k, st), dict(s0=int, l0=int, g=int, l1=int, w=int, step=int, start=int),
                           lambda s0, l0, g, l1, w, step, start: s0 >= 0 and l0 >= 1 and g >= 1 and l1 >= 1, budget=400, cost=30 * k,
                           desc="scan_windows: first window returned iff arguments are valid (window == length included), otherwise a documented refusal",
                           bounds="%d block(s), all integer window/step/start" % k,
                           examples=[dict(s0=2, l0=4, g=1, l1=3, w=4 if k == 1 else 7, step=1, start=0), dict(s0=2, l0=4, g=1, l1=3, w=0, step=1, start=0)]))
    out.append(Obl("compound_ctor_lengths", compound_lengths(), dict(n=int, m=int), lambda n, m: 0 <= n and n <= 3 and 0 <= m and m <= 3, budget=60, cost=2,
                   desc="unequal or empty start/end lists are refused", bounds="0..3 starts x 0..3 ends", examples=[dict(n=2, m=1)]))
    out.append(Obl("parent_ctor", parent_ctor(), dict(s=int, l=int, n=int, kind=int), lambda s, l, n, kind: s >= 0 and l >= 0 and 0 <= kind and kind <= 5,
                   budget=300, cost=20, desc="Parent constructor: conflicting ids / types / strands and locations beyond the sequence are refused",
                   bounds="6 argument patterns, symbolic location", examples=[dict(s=2, l=3, n=0, kind=2), dict(s=8, l=5, n=0, kind=2), dict(s=1, l=1, n=0, kind=0)]))
    out.append(Obl("sequence_checks", sequence_checks(), dict(i=int), lambda i: 0 <= i and i < 13, budget=60, cost=3,
                   desc="alphabet violations, reverse complement of proteins, mismatched appends, length/parent mismatches are refused with documented errors",
                   bounds="13 cases", examples=[dict(i=0)]))
    out.append(Obl("cds_ctor", cds_ctor(), dict(s0=int, e0=int, s1=int, e1=int, nf=int, st=int),
                   lambda s0, e0, s1, e1, nf, st: 0 <= nf and nf <= 3 and 0 <= st and st <= 2, budget=600, cost=80,
                   desc="CDSInterval with arbitrary block coordinates and 0..3 frames: consistent object or documented refusal", bounds="all integers",
                   examples=[dict(s0=0, e0=5, s1=7, e1=9, nf=2, st=0), dict(s0=0, e0=5, s1=7, e1=9, nf=1, st=0), dict(s0=5, e0=0, s1=7, e1=9, nf=2, st=1)]))
    out.append(Obl("cds_misc", cds_misc(), dict(i=int), lambda i: 0 <= i and i < 11, budget=60, cost=3,
                   desc="empty CDS, mixed frame/phase, codon-less CDS, sequence-less extraction, out-of-range windows: value or documented refusal",
                   bounds="11 cases", examples=[dict(i=0)]))
    out.append(Obl("transcript_ctor", transcript_ctor(), dict(es=int, el=int, cs=int, cl=int, kind=int), lambda es, el, cs, cl, kind: 0 <= kind and kind <= 7,
                   budget=600, cost=80, desc="TranscriptInterval/FeatureInterval argument checks: CDS outside exons, half-specified CDS, frame count, unequal lists",
                   bounds="8 argument patterns, all integers", examples=[dict(es=2, el=10, cs=4, cl=3, kind=0), dict(es=2, el=10, cs=1, cl=3, kind=0), dict(es=2, el=10, cs=4, cl=3, kind=3)]))
    out.append(Obl("collections_ctor", collections_ctor(), dict(i=int), lambda i: 0 <= i and i < N_COLL, budget=120, cost=5,
                   desc="empty/duplicate children, two primary flags, empty/overlapping variants, half-specified bounds, invalid queries, absent UTR/CDS/sequence: "
                        "value or documented refusal", bounds="%d cases" % N_COLL, examples=[dict(i=0)]))
    def query_range():
        from inscripta.biocantor.exc import InvalidQueryError
        from inscripta.biocantor.gene.collections import AnnotationCollection
        from inscripta.biocantor.gene.gene import GeneInterval
        from inscripta.biocantor.gene.transcript import TranscriptInterval

        def fn(lo, hi, s, l, qs, qe, within):
            tx = TranscriptInterval([s], [s + l], PLUS, guid=600)
            coll = AnnotationCollection(genes=[GeneInterval([tx], guid=700)], sequence_name="chr1", start=lo, end=hi)
            valid = AND(0 <= qs, qs < qe, lo <= qs, qe <= hi)
            try:
                res = coll.query_by_position(qs, qe, completely_within=within)
            except InvalidQueryError:
                return NOT(valid)
            # answered: the range was a valid sub-range of the collection, and the answer carries exactly that range
            return AND(valid, res.start == qs, res.end == qe, res.start >= coll.start, res.end <= coll.end)

        return fn

    out.append(Obl("query_range_refused", query_range(), dict(lo=int, hi=int, s=int, l=int, qs=int, qe=int, within=bool),
                   lambda lo, hi, s, l, qs, qe, within: 0 <= lo and lo <= s and l >= 1 and s + l <= hi, budget=400, cost=30, stubs=dict(bins="contract"),
                   desc="query_by_position with UNCONSTRAINED integer range (zero, negative, inverted, empty, outside the collection bounds): InvalidQueryError "
                        "unless 0 <= start < end within the collection bounds; an answered query carries exactly the requested range",
                   bounds="1-gene collection with symbolic bounds, all integers for the range, both modes",
                   examples=[dict(lo=10, hi=40, s=12, l=5, qs=11, qe=22, within=True), dict(lo=10, hi=40, s=12, l=5, qs=5, qe=22, within=False)]))
    def invalid_codon_twice():
        from inscripta.biocantor.gene.codon import Codon

        CH = ["A", "C", "G", "T", "U", "N", "-", "X", "1", " ", "a", "?"]

        def fn(i, j, k, n):
            i, j, k, n = concretize(i, j, k, n)
            with untraced():
                sq = (CH[i] + CH[j] + CH[k] + "A")[:n]
                valid = n == 3 and all(c.upper() in "ATUCGNWSMKRYBDHV" for c in sq)
                # asked three times: an invalid codon is refused EVERY time (ValueError), a valid one is the same well-formed singleton every time
                seen = []
                for _ in range(3):
                    try:
                        c = Codon(sq)
                        seen.append(("ok", str(c), len(str(c)) == 3, id(c)))
                    except ValueError:
                        seen.append(("refused",))
                if valid:
                    return all(x[0] == "ok" and x[2] and x[1] == sq.upper() for x in seen) and len({x[3] for x in seen}) == 1
                return all(x == ("refused",) for x in seen)

        return fn

    out.append(Obl("invalid_codon_refused_every_time", invalid_codon_twice(), dict(i=int, j=int, k=int, n=int),
                   lambda i, j, k, n: 0 <= i and i < 12 and 0 <= j and j < 12 and 0 <= k and k < 12 and 2 <= n and n <= 4 and (n == 3 or (i < 2 and j >= 5)),
                   budget=300, cost=30,
                   desc="Codon(text) for every 3-character text over a 12-character alphabet (valid letters, U, N, gap, X, digit, blank, lower case, ?) and some of "
                        "length 2/4, requested three times in a row: invalid text is refused with ValueError every time (no half-built singleton is handed out), valid "
                        "text gives the same singleton", bounds="12^3 triplets + short/long texts (realised)", examples=[dict(i=0, j=6, k=2, n=3), dict(i=0, j=1, k=2, n=3)]))

    def alphabet_boundaries():
        from inscripta.biocantor.exc import AlphabetError

        N = 3 * 65536 + 5

        def fn(p, bad):
            p, bad = concretize(p, bad)
            with untraced():
                ch = ["?", "-", "N", "u"][bad]
                data = "A" * p + ch + "C" * (N - p - 1)
                try:
                    sq = Sequence(data, Alphabet.NT_STRICT)
                except AlphabetError:
                    return True
                return False  # an out-of-alphabet character was accepted: str(sq)[p] is not a strict nucleotide

        return fn

    out.append(Obl("alphabet_violation_at_block_boundaries", alphabet_boundaries(), dict(p=int, bad=int),
                   lambda p, bad: 0 <= p and p < 3 * 65536 + 5 and 0 <= bad and bad <= 3 and (p % 1024 == 0 or p % 1024 == 1 or p % 1024 == 1023) and (bad == 0 or p % 65536 >= 65535),
                   budget=600, cost=60,
                   desc="a single out-of-alphabet character anywhere near a multiple of 1024 in a long sequence (196613 nt) is refused with AlphabetError "
                        "(chunked / blocked validation must not skip positions at block edges)",
                   bounds="sequence length 3*2^16+5, offending position p with p mod 1024 in {1023, 0, 1} (realised), 4 offending characters at the 2^16 edges",
                   examples=[dict(p=65535, bad=0), dict(p=1024, bad=0)]))
    from harness.c13 import overlap_refused_k3

    out.append(Obl("variant_collection_ctor_k3", overlap_refused_k3(), dict(v1s=int, v1l=int, v2s=int, v2l=int, v3s=int, v3l=int),
                   lambda v1s, v1l, v2s, v2l, v3s, v3l: v1s >= 0 and v2s >= 0 and v3s >= 0 and v1l >= 1 and v2l >= 1 and v3l >= 1, budget=400, cost=30,
                   desc="VariantIntervalCollection of three variants given in any order: refused (LocationOverlapException) exactly when some pair overlaps, "
                        "never a collection violating the no-overlap invariant", bounds="unbounded symbolic coordinates, every input order",
                   examples=[dict(v1s=10, v1l=3, v2s=12, v2l=1, v3s=20, v3l=1), dict(v1s=10, v1l=3, v2s=20, v2l=1, v3s=14, v3l=1)]))
    from harness.c03 import append_fn

    for s1 in (PLUS, MINUS):
        out.append(Obl("sequence_append_%s" % sname(s1), append_fn(Alphabet.NT_STRICT, "ACGTac", s1, s1), dict(s0=int, e0=int, s1=int, e1=int),
                       lambda s0, e0, s1, e1: 0 <= s0 and s0 < e0 and e0 <= 6 and 0 <= s1 and s1 < e1 and e1 <= 6, budget=300, cost=20,
                       desc="Sequence.append of two located pieces: out-of-order or overlapping pieces are refused, never an ill-formed Sequence",
                       bounds="every pair of single-block pieces on a 6-letter parent (realised)", examples=[dict(s0=0, e0=2, s1=3, e1=5)]))
    def ctor_at_boundaries():
        """VALID intervals whose end lies on / next to a power of two (where the binning scheme changes level or runs out of levels): every interval class
        constructs (no internal error), keeps its coordinates and gets an integer bin; run with the real bins()"""
        from inscripta.biocantor.gene.collections import AnnotationCollection
        from inscripta.biocantor.gene.feature import FeatureInterval, FeatureIntervalCollection
        from inscripta.biocantor.gene.gene import GeneInterval
        from inscripta.biocantor.gene.transcript import TranscriptInterval
        from inscripta.biocantor.gene.variants import VariantInterval, VariantIntervalCollection

        def fn(e, d, span, kind):
            e, d, span, kind = concretize(e, d, span, kind)
            with untraced():
                end = 2 ** e + d
                start = end - [1, 3, 131073, end][span] if [1, 3, 131073, end][span] <= end else 0
                mk = [lambda: FeatureInterval([start], [end], PLUS, guid=1), lambda: TranscriptInterval([start], [end], MINUS, guid=2),
                      lambda: CDSInterval([start], [end], PLUS, [CDSFrame.ZERO], guid=3), lambda: VariantInterval(start, end, "A", "indel", guid=4),
                      lambda: GeneInterval([TranscriptInterval([start], [end], PLUS, guid=5)], guid=6),
                      lambda: FeatureIntervalCollection([FeatureInterval([start], [end], PLUS, guid=7)], guid=8),
                      lambda: VariantIntervalCollection([VariantInterval(start, end, "A", "indel", guid=9)], guid=10),
                      lambda: AnnotationCollection(genes=[GeneInterval([TranscriptInterval([start], [end], PLUS, guid=11)], guid=12)])][kind]
                o = mk()
                ok = o.start == start and o.end == end
                if hasattr(o, "bin"):
                    ok = ok and isinstance(o.bin, int) and o.bin >= 1
                if kind == 7:
                    got = o.query_by_position(start, end, completely_within=False)
                    ok = ok and len(list(got.iter_children())) == 1
                return ok

        return fn

    out.append(Obl("valid_ctor_at_power_of_two_boundaries", ctor_at_boundaries(), dict(e=int, d=int, span=int, kind=int),
                   lambda e, d, span, kind: 14 <= e and e <= 31 and -1 <= d and d <= 1 and 0 <= span and span <= 3 and 0 <= kind and kind <= 7, budget=900, cost=60,
                   stubs=dict(bins="real"),
                   desc="valid intervals ending at 2^e-1, 2^e, 2^e+1 (e = 14..31) of length 1 / 3 / 131073 / from 0: all eight interval and collection classes construct "
                        "with the real bins() (no IndexError or other internal error), keep their coordinates, carry an integer bin, and an overlap query finds the member",
                   bounds="18 exponents x 3 offsets x 4 lengths x 8 classes (closed by the solver)", examples=[dict(e=29, d=0, span=1, kind=0), dict(e=17, d=1, span=2, kind=7)]))
    def adoption_refusals():
        """members re-parented in place by a collection (C10 records the stale memo as F19): whatever was asked before, every question afterwards is answered
        or refused with a DOCUMENTED exception (a BioCantorException / ValueError) - never an internal TypeError / AttributeError / IndexError"""
        import harness.c10 as c10

        fnc = c10.adoption_history()
        cells = dict(zip(fnc.__code__.co_freevars, [c.cell_contents for c in fnc.__closure__]))
        PRE, POST = cells["PRE"], cells["POST"]

        def fn(kind, own, owner, pre):
            kind, own, owner, pre = concretize(kind, own, owner, pre)
            with untraced():
                pars = [None, "chrom", "chunk", "bare"]

                def par(k):
                    return Parent(id="chr1", sequence_type="chromosome") if k == "bare" else c10._par(k)

                if kind == 0:
                    t1 = TranscriptInterval([2, 16], [14, 36], MINUS, [4, 16], [14, 30], [CDSFrame.ZERO, CDSFrame.TWO], transcript_id="tx", sequence_name="chr1",
                                            parent_or_seq_chunk_parent=par(pars[own]))
                    m = GeneInterval([t1], gene_id="gid", sequence_name="chr1", parent_or_seq_chunk_parent=par(pars[own]))
                else:
                    f1 = FeatureInterval([3, 12], [9, 20], PLUS, feature_name="fn", sequence_name="chr1", parent_or_seq_chunk_parent=par(pars[own]))
                    m = FeatureIntervalCollection([f1], feature_collection_name="fc", sequence_name="chr1", parent_or_seq_chunk_parent=par(pars[own]))
                if PRE[pre] is not None:
                    try:
                        PRE[pre](m)
                    except (BioCantorException, ValueError):
                        pass
                try:
                    coll = AnnotationCollection(genes=[m] if kind == 0 else None, feature_collections=[m] if kind == 1 else None, sequence_name="chr1",
                                                parent_or_seq_chunk_parent=par(pars[owner]))
                except (BioCantorException, ValueError):
                    return True
                for f in POST:
                    try:
                        f(m, coll)
                    except (BioCantorException, ValueError):
                        pass
                return True

        return fn

    out.append(Obl("adopted_members_refuse_with_documented_errors", adoption_refusals(), dict(kind=int, own=int, owner=int, pre=int),
                   lambda kind, own, owner, pre: 0 <= kind and kind <= 1 and 0 <= own and own <= 3 and 0 <= owner and owner <= 3 and 0 <= pre and pre <= 9, budget=900, cost=60,
                   desc="gene / feature collection built on no parent, a chromosome, a chunk or a sequence-less chromosome, asked one of 9 questions (or none) and then "
                        "handed to an annotation collection on any of these parents: each of 14 later questions (locations, queries, dictionaries, has_sequence, spliced / "
                        "reference / genomic sequence) is answered or refused with a BioCantorException / ValueError, never with an internal error",
                   bounds="2 member kinds x 4 own parents x 4 owner parents x 10 earlier questions (closed by the solver)",
                   examples=[dict(kind=0, own=1, owner=3, pre=8), dict(kind=1, own=0, owner=1, pre=0)]))
    def cds_within_exons():
        """a coding transcript is built only when every CDS position is an exon position (the constructor compares more than the outer bounds); otherwise the
        documented InvalidCDSIntervalError - never a transcript whose CDS cannot be placed on it"""
        from inscripta.biocantor.exc import InvalidCDSIntervalError

        def fn(s0, l0, g1, l1, cs, cl, c2s, c2l, two):
            ex = [(s0, s0 + l0), (s0 + l0 + g1, s0 + l0 + g1 + l1)]
            cds = [(cs, cs + cl)] + ([(c2s, c2s + c2l)] if two else [])
            inside = AND(*[OR(*[AND(e[0] <= c[0], c[1] <= e[1]) for e in ex]) for c in cds])
            try:
                t = TranscriptInterval([e[0] for e in ex], [e[1] for e in ex], PLUS, [c[0] for c in cds], [c[1] for c in cds], [CDSFrame.ZERO] * len(cds), guid=1)
            except InvalidCDSIntervalError:
                return NOT(inside)
            return AND(inside, t.is_coding, t.cds_start == cds[0][0], t.cds_end == cds[-1][1], t.cds_pos_to_transcript(0) >= 0)

        return fn

    out.append(Obl("cds_blocks_within_exons", cds_within_exons(), dict(s0=int, l0=int, g1=int, l1=int, cs=int, cl=int, c2s=int, c2l=int, two=bool),
                   lambda s0, l0, g1, l1, cs, cl, c2s, c2l, two: s0 >= 0 and l0 >= 1 and g1 >= 1 and l1 >= 1 and cs >= 0 and cl >= 1 and c2l >= 1 and c2s >= cs + cl, budget=600, cost=40,
                   desc="two-exon transcript with one or two CDS blocks anywhere: built exactly when every CDS block lies inside an exon (then coding, with the given CDS "
                        "bounds and a placeable first CDS position), refused with InvalidCDSIntervalError otherwise - including CDS blocks inside the intron, which the outer-"
                        "bounds comparison alone lets through", bounds="2 exons (intron >= 1), 1..2 CDS blocks, unbounded symbolic coordinates",
                   examples=[dict(s0=0, l0=10, g1=30, l1=10, cs=5, cl=5, c2s=30, c2l=1, two=True), dict(s0=0, l0=10, g1=30, l1=10, cs=5, cl=5, c2s=40, c2l=5, two=True)]))
    from harness.c02 import _ex2, _params2, _pre2, parent_flags_fn

    for kind in ("mismatch_placement", "mismatch_placement_strand", "mismatch_grandparent", "mismatch_type"):
        out.append(Obl("strict_parent_compare_refuses_%s" % kind, parent_flags_fn(kind, True), _params2(1, 1, {"p": int}), _pre2(1, 1), budget=120, cost=4,
                       desc="(shared with C02) has_overlap / intersection / minus / contains with strict_parent_compare on locations whose parents differ only in %s: "
                            "refused with MismatchedParentException, nothing is combined across two coordinate systems" % {
                                "mismatch_placement": "WHERE the same-named system sits on its own parent", "mismatch_placement_strand": "the strand of the system's placement on its own parent",
                                "mismatch_grandparent": "the grandparent's id", "mismatch_type": "the sequence type"}[kind],
                       bounds="1x1 blocks, unbounded symbolic coordinates", examples=[_ex2(1, 1, p=5)]))
    def alphabet_foreign_characters():
        """every alphabet refuses a text holding ONE character outside it - any ASCII control, white-space, punctuation or letter, at the first, an inner or the
        LAST position (a trailing line feed included), alone or doubled - with AlphabetError (or another ValueError); texts of its own letters are accepted"""
        from inscripta.biocantor.exc import AlphabetError

        def fn(a, c, where):
            a, c, where = concretize(a, c, where)
            with untraced():
                alpha = sorted(Alphabet, key=lambda x: x.name)[a]
                letters = alpha.value
                ch = chr(c)
                base = (letters * 3)[:7]
                text = [ch + base, base[:3] + ch + base[3:], base + ch, base + ch + ch, ch][where]
                legal = ch.upper() in letters if ch.isalpha() or ch in letters else False
                try:
                    sq = Sequence(text, alpha)
                except (AlphabetError, ValueError):
                    return not legal
                return legal and len(sq) == len(text) and str(sq) == text

        return fn

    quick = tier == "quick"
    nalpha = len(list(Alphabet))
    out.append(Obl("alphabet_foreign_character_anywhere", alphabet_foreign_characters(), dict(a=int, c=int, where=int),
                   lambda a, c, where: 0 <= a and a < nalpha and 0 <= c and c <= 127 and 0 <= where and where <= 4 and (not quick or (a + c) % 2 == 0), budget=900, cost=60,
                   desc="Sequence(text, alphabet) for every alphabet and every 7-bit character placed first / inside / last / doubled at the end / alone in a text of the "
                        "alphabet's own letters: accepted exactly when the character (case-folded) belongs to the alphabet, refused with AlphabetError otherwise - a "
                        "trailing line feed, tab or blank is not overlooked", bounds="%d alphabets x 128 characters x 5 positions%s (closed by the solver)" % (
                       nalpha, " (half in the quick tier)" if quick else ""), examples=[dict(a=0, c=10, where=2), dict(a=2, c=66, where=1)]))
    out.append(Obl("deep_location", deep_location(), dict(n=int), lambda n: n == 2 or n == 400 or n == 1200 or n == 5000, budget=120, cost=10,
                   desc="locations with 2 / 400 / 1200 / 5000 blocks answer positional queries without RecursionError", bounds="4 sizes (concrete)",
                   examples=[dict(n=400)]))
    return out
