"""C04 — lift-over through nested coordinate systems composes and preserves sequence."""
import harness.common  # noqa: F401
from inscripta.biocantor.exc import BioCantorException, LocationOverlapException, NoSuchAncestorException
from inscripta.biocantor.gene.interval import AbstractInterval
from inscripta.biocantor.location.location_impl import CompoundInterval, EmptyLocation, SingleInterval
from inscripta.biocantor.parent import Parent, SequenceType
from inscripta.biocantor.sequence import Alphabet, Sequence

from harness.common import (
    AND, IFF, ITE, MINUS, NOT, OR, PLUS, GENOME40, blocks_of, chunk_parent, layout_blocks, layout_params, layout_pre, make_location,
    member, mult, sname, total_len, walk_pos,
)
from vlib.obl import Obl, split_cubes
from vlib.sym import concretize, untraced

META = dict(
    functions=["Parent.lift_child_location_to_parent / first_ancestor_of_type / has_ancestor_of_type / has_ancestor_sequence / reset_location / strip_location_info",
               "Location.lift_over_to_first_ancestor_of_type / lift_over_to_sequence / first_ancestor_of_type",
               "CompoundInterval.relative_interval_to_parent_location / union_preserve_overlaps (per-block lift)",
               "AbstractInterval.liftover_location_to_seq_chunk_parent (chromosome -> chunk, chunk -> chunk)",
               "io.parser.seq_to_parent / seq_chunk_to_parent (when importable)"],
    bounds=dict(quick="hierarchy depth 2 with child and placement of <=2 blocks each on either strand, depth 3 with single-block placements; "
                      "all coordinates unbounded symbolic integers; chunk legs: chunk of concrete length 12/24 at a symbolic offset on either strand; "
                      "sequence legs on a 12-letter tagged sequence (coordinates realised)",
                thorough="depth 2 with 2x2 blocks on all strand combinations, depth 3 with 2-block placements, depth 4 single-block"),
    outside="deeper hierarchies; >2-block placements; overlapping placements",
    stubs=["S1", "S2", "S3", "S6", "S11"],
    assumptions=["composition oracle: the block-walk point map of C01 applied level by level"],
)
T0, T1, T2, T3 = "level0", "level1", "level2", "level3"


def hierarchy(levels, idiom="loc_parent"):
    """levels: list of (blocks, strand, type) from the innermost placement outwards: level i is placed on level i+1.
    Returns the Parent to hang a child location on (the innermost coordinate system)."""
    (top_type) = levels[-1][2] if levels else T0
    cur = None
    # build from the outside in
    outer = Parent(id="sys%d" % len(levels), sequence_type="type%d" % len(levels))
    for depth in range(len(levels) - 1, -1, -1):
        blocks, strand, _ = levels[depth]
        if idiom == "loc_parent":
            # the io.parser idiom (depth 2 only: the holder cannot carry further ancestors)
            placement = make_location(blocks, strand, parent=outer)
            holder = Parent(location=placement)
        elif idiom == "explicit":
            placement = make_location(blocks, strand)
            holder = Parent(id=outer.id, sequence_type=outer.sequence_type, location=placement, parent=outer.parent)
        else:
            # the placement location carries its own bare parent (id only) while the holder carries type and ancestors
            placement = make_location(blocks, strand, parent=outer.id)
            holder = Parent(id=outer.id, sequence_type=outer.sequence_type, location=placement, parent=outer.parent)
        outer = Parent(id="sys%d" % depth, sequence_type="type%d" % depth, parent=holder)
    return outer


def compose(child_blocks, child_strand, levels, i, upto):
    """expected parent position of the i-th base of the child after lifting through levels[0..upto)"""
    pos = walk_pos(child_blocks, child_strand, i)
    strand = child_strand
    for blocks, s, _ in levels[:upto]:
        pos = walk_pos(blocks, s, pos)
        strand = strand.relative_to(s)
    return pos, strand


def lift_fn(kc, sc, shapes, upto, idiom, ordered=True):
    """shapes: list of (k, strand) for each placement level. ordered=False (overlapping placements): the library keeps blocks sorted by start, so bases
    the placement duplicates come back in block order, not in 5'->3' order (the F12 normalisation): only length and coverage are claimed"""

    def fn(**kw):
        cb = layout_blocks(kc, kw, "c")
        levels = []
        for d, (k, s) in enumerate(shapes):
            levels.append((layout_blocks(k, kw, "p%d" % d), s, "type%d" % (d + 1)))
        inner = hierarchy(levels, idiom)
        child = make_location(cb, sc, parent=inner)
        i = kw["i"]
        try:
            lifted = child.lift_over_to_first_ancestor_of_type("type%d" % upto)
        except NoSuchAncestorException:
            return False
        lb = blocks_of(lifted)
        exp_pos, exp_strand = compose(cb, sc, levels, i, upto)
        n = total_len(cb)
        conds = [lifted.strand is exp_strand, len(lifted) == n, total_len(lb) == n,
                 OR(NOT(AND(0 <= i, i < n)), (walk_pos(lb, exp_strand, i) == exp_pos) if ordered else member(exp_pos, lb)),
                 lifted.parent is not None and lifted.parent.id == "sys%d" % upto and lifted.parent.sequence_type == "type%d" % upto]
        return AND(*conds)

    return fn


def lift_many_fn(kc, sc, sp, realised=True):
    """a child of MANY blocks (common length and gap) lifted through a two-block placement: some child block straddles the placement junction, others lie
    wholly in one placement block; size-dependent code paths in the union of the lifted pieces start only at some block count"""

    def fn(**kw):
        names = sorted(kw)
        vals = concretize(*[kw[n] for n in names])
        kw = dict(zip(names, vals if isinstance(vals, list) else [vals]))
        with untraced():
            return bool(body(**kw))

    def body(cs, L, G, ps, pl0, pg, extra):
        cb = [(cs + j * (L + G), cs + j * (L + G) + L) for j in range(kc)]
        n = kc * L
        cend = cb[-1][1]
        levels = [([(ps, ps + pl0), (ps + pl0 + pg, ps + pl0 + pg + max(cend - pl0, 0) + 1 + extra)], sp, "type1")]
        inner = hierarchy(levels, "loc_parent")
        child = make_location(cb, sc, parent=inner)
        lifted = child.lift_over_to_first_ancestor_of_type("type1")
        lb = blocks_of(lifted)
        if len(lifted) != n or sum(e - s_ for s_, e in lb) != n:
            return False
        exp_strand = sc.relative_to(sp)
        if lifted.strand is not exp_strand:
            return False
        got = [lifted.relative_to_parent_pos(i) for i in range(n)]
        exp = [compose(cb, sc, levels, i, 1)[0] for i in range(n)]
        return got == exp and all(a[1] <= b[0] for a, b in zip(lb, lb[1:]))

    return fn


def lift_pre(kc, shapes):
    def pre(**kw):
        if not layout_pre(kc, kw, "c", min_len=1, min_gap=1):
            return False
        cend = kw["cs0"] + sum(kw["cl%d" % i] for i in range(kc)) + sum(kw["cg%d" % i] for i in range(1, kc))
        need = cend
        for d, (k, s) in enumerate(shapes):
            pfx = "p%d" % d
            if not layout_pre(k, kw, pfx, min_len=1, min_gap=1):
                return False
            tot = sum(kw[pfx + "l%d" % i] for i in range(k))
            if not need <= tot:
                return False
            need = kw[pfx + "s0"] + tot + sum(kw[pfx + "g%d" % i] for i in range(1, k))
        return True

    return pre


def lift_ov_pre(kc, splace):
    """child: kc non-overlapping blocks (0-bp gaps allowed); ONE placement level of two OVERLAPPING (not nested, distinct starts) blocks - a programmed
    frameshift / ribosomal slippage style placement that duplicates some bases of the parent"""

    def pre(**kw):
        if not layout_pre(kc, kw, "c", min_len=1, min_gap=0):
            return False
        cend = kw["cs0"] + sum(kw["cl%d" % i] for i in range(kc)) + sum(kw["cg%d" % i] for i in range(1, kc))
        l0, l1, g1 = kw["p0l0"], kw["p0l1"], kw["p0g1"]
        return kw["p0s0"] >= 0 and l0 >= 2 and l1 >= 2 and -l0 < g1 and g1 < 0 and l1 + g1 > 0 and cend <= l0 + l1

    return pre


def lift_params(kc, shapes):
    p = dict(layout_params(kc, "c"))
    for d, (k, s) in enumerate(shapes):
        p.update(layout_params(k, "p%d" % d))
    p["i"] = int
    return p


def lift_example(kc, shapes):
    e = {"cs0": 1, "i": 1}
    for i in range(kc):
        e["cl%d" % i] = 2
    for i in range(1, kc):
        e["cg%d" % i] = 1
    size = 20
    for d, (k, s) in enumerate(shapes):
        pfx = "p%d" % d
        e[pfx + "s0"] = 3
        for i in range(k):
            e[pfx + "l%d" % i] = size
        for i in range(1, k):
            e[pfx + "g%d" % i] = 2
        size = size * 2 + 10
    return e


def twin_hierarchies_fn():
    """two hierarchies whose lower levels are identical and that differ only in whether the chromosome level has a parent of its own, built one after
    the other in one process (real, process-wide Parent cache): each lift-over answers for ITS OWN hierarchy"""
    from inscripta.biocantor.location.location_impl import SingleInterval
    from inscripta.biocantor.parent import Parent

    def build(deep, cs, cl):
        top = Parent(id="asm", sequence_type="assembly") if deep else None
        chrom = Parent(id="chr1", sequence_type="chromosome", location=SingleInterval(100, 400, PLUS), parent=top)
        feat = Parent(id="feat", sequence_type="feature", location=SingleInterval(10, 60, MINUS), parent=chrom)
        return SingleInterval(cs, cs + cl, PLUS, parent=feat)

    def answers(loc):
        out = []
        for typ in ("feature", "chromosome", "assembly"):
            try:
                up = loc.lift_over_to_first_ancestor_of_type(typ)
                out.append((typ, up.start, up.end, up.strand.name, up.parent.id if up.parent else None))
            except (NoSuchAncestorException, BioCantorException) as e:
                out.append((typ, type(e).__name__))
            out.append(loc.has_ancestor_of_type(typ))
        return out

    def fn(cs, cl, order):
        cs, cl, order = concretize(cs, cl, order)
        with untraced():
            # reference answers: each hierarchy built alone from an empty cache
            ref = {}
            for deep in (False, True):
                Parent.cache_clear()
                ref[deep] = answers(build(deep, cs, cl))
            if ref[True] == ref[False]:
                return False  # the two hierarchies must be distinguishable (the deep one has an assembly ancestor)
            Parent.cache_clear()
            seq = [(False, True), (True, False), (True, True), (False, False)][order]
            locs = [(build(d, cs, cl), d) for d in seq]
            return all(answers(l) == ref[d] for l, d in locs) and all(answers(l) == ref[d] for l, d in reversed(locs))

    return fn


def no_ancestor_fn():
    def fn(**kw):
        cb = layout_blocks(1, kw, "c")
        levels = [(layout_blocks(1, kw, "p0"), PLUS, "type1")]
        child = make_location(cb, PLUS, parent=hierarchy(levels))
        bare = make_location(cb, PLUS)
        out = []
        for loc, typ in ((child, "nosuchtype"), (bare, "type1"), (child, "type2")):
            try:
                loc.lift_over_to_first_ancestor_of_type(typ)
                out.append(False)
            except NoSuchAncestorException:
                out.append(True)
        same = child.lift_over_to_first_ancestor_of_type("type0")
        return AND(all(out), same is child, child.has_ancestor_of_type("type1"), NOT(child.has_ancestor_of_type("zzz")))

    return fn


# ------------------------------------------------------------------ chunk legs
def chunk_fn(k, strand, chunk_strand, L):
    def fn(**kw):
        bl = layout_blocks(k, kw)
        w, p = kw["w"], kw["p"]
        loc = make_location(bl, strand, parent=Parent(id="chr1", sequence_type=SequenceType.CHROMOSOME))
        par = chunk_parent(w, L, strand=chunk_strand)
        res = AbstractInterval.liftover_location_to_seq_chunk_parent(loc, par)
        inside = OR(*[AND(s < w + L, w < e, s < e) for s, e in bl])
        if res is EmptyLocation():
            return NOT(inside)
        rb = blocks_of(res)
        back = res.lift_over_to_first_ancestor_of_type(SequenceType.CHROMOSOME)
        bb = blocks_of(back)
        want = AND(member(p, bl), w <= p, p < w + L)
        conds = [inside, mult(p, bb) == ITE(want, 1, 0), back.strand is strand, res.strand is strand.relative_to(chunk_strand),
                 rb[0][0] >= 0, rb[-1][1] <= L, res.parent.sequence is not None, back.parent.id == "chr1"]
        # chunk-relative coordinate of p
        rel = (p - w) if chunk_strand is PLUS else (w + L - 1 - p)
        conds.append(mult(rel, rb) == ITE(want, 1, 0))
        return AND(*conds)

    return fn


def rechunk_fn(strand, chunk_strand, L):
    """a location already on a chunk is lifted onto ANOTHER chunk of the same chromosome"""

    def fn(s0, l0, w, w2, p):
        bl = [(s0, s0 + l0)]
        loc = make_location(bl, strand, parent=Parent(id="chr1", sequence_type=SequenceType.CHROMOSOME))
        first = AbstractInterval.liftover_location_to_seq_chunk_parent(loc, chunk_parent(w, L, strand=chunk_strand))
        if first is EmptyLocation():
            return True
        second = AbstractInterval.liftover_location_to_seq_chunk_parent(first, chunk_parent(w2, L))
        lo = ITE(w > w2, w, w2)
        hi = ITE(w + L < w2 + L, w + L, w2 + L)
        want = AND(s0 <= p, p < s0 + l0, lo <= p, p < hi)
        if second is EmptyLocation():
            return NOT(want)
        back = second.lift_over_to_first_ancestor_of_type(SequenceType.CHROMOSOME)
        return AND(mult(p, blocks_of(back)) == ITE(want, 1, 0), back.strand is strand)

    return fn


# ------------------------------------------------------------------ sequence legs (realised)
TAG12 = "ACGTacgtNnRy"


def seq_fn(sc, sp):
    def fn(cs, ce, ps, pe):
        cs, ce, ps, pe = concretize(cs, ce, ps, pe)
        with untraced():
            top_seq = Sequence(TAG12, Alphabet.NT_EXTENDED, id="top", type="type1")
            placement = SingleInterval(ps, pe, sp, parent=Parent(id="top", sequence_type="type1", sequence=top_seq))
            mid_seq = placement.extract_sequence()
            holder = Parent(id="top", sequence_type="type1", sequence=top_seq, location=SingleInterval(ps, pe, sp))
            mid = Parent(id="mid", sequence_type="type0",
                         sequence=Sequence(str(mid_seq), Alphabet.NT_EXTENDED, id="mid", type="type0", parent=holder))
            child = SingleInterval(cs, ce, sc, parent=mid)
            lifted = child.lift_over_to_sequence(top_seq)
            lifted2 = child.lift_over_to_first_ancestor_of_type("type1")
            ok = str(lifted.extract_sequence()) == str(child.extract_sequence()) and lifted == lifted2
            ok = ok and child.lift_over_to_sequence(mid.sequence) is child
            try:
                child.lift_over_to_sequence(Sequence("ACGT", Alphabet.NT_STRICT))
                ok = False
            except NoSuchAncestorException:
                pass
            return ok

    return fn


def long_seq_identity_fn():
    """lift-over BY SEQUENCE IDENTITY on long named chromosomes (lengths around powers of two and 10^5/10^6, where block-wise comparison or length-gated
    shortcuts would switch on): an equal copy is the ancestor, a copy edited in ONE base (first / middle / last / block-edge position) is not - neither for
    has_ancestor_sequence nor for lift_over_to_sequence nor for re-lifting a chunk location onto a chunk of the edited chromosome"""
    LENS = [4097, 65537, 100001, 131073, 1000003]
    cache = {}

    def genome(n):
        if n not in cache:
            unit = "ACGTTGCAAGCTTAGGCTAACGTCA"
            cache[n] = (unit * (n // len(unit) + 1))[:n]
        return cache[n]

    def fn(ln, where, cstrand):
        ln, where, cstrand = concretize(ln, where, cstrand)
        with untraced():
            from inscripta.biocantor.exc import MismatchedParentException
            from inscripta.biocantor.gene.interval import AbstractInterval

            n = LENS[ln]
            data = genome(n)
            pos = [0, n // 2, n - 1, 65535, 65536, 99999][where] % n
            alt_data = data[:pos] + ("A" if data[pos] != "A" else "C") + data[pos + 1:]
            ref = Sequence(data, Alphabet.NT_STRICT, id="chr1", type=SequenceType.CHROMOSOME)
            again = Sequence(data, Alphabet.NT_STRICT, id="chr1", type=SequenceType.CHROMOSOME)
            alt = Sequence(alt_data, Alphabet.NT_STRICT, id="chr1", type=SequenceType.CHROMOSOME)
            ok = ref == again and not (ref == alt) and ref != alt and hash(ref) == hash(again)
            strand = PLUS if cstrand == 0 else MINUS
            st = max(0, min(pos - 40, n - 100))

            def chunk_on(chrom):
                cdata = str(chrom)[st:st + 100]
                if strand is MINUS:
                    cdata = str(Sequence(cdata, Alphabet.NT_STRICT).reverse_complement())
                cid = "chr1:%d-%d" % (st, st + 100)
                return Parent(id=cid, sequence=Sequence(cdata, Alphabet.NT_STRICT, id=cid, type=SequenceType.SEQUENCE_CHUNK, parent=Parent(
                    sequence=chrom, location=SingleInterval(st, st + 100, strand, parent=Parent(sequence=chrom)))))

            loc = SingleInterval(30, 50, MINUS, parent=chunk_on(ref))
            for target in (ref, again):
                ok = ok and loc.has_ancestor_sequence(target)
                lifted = loc.lift_over_to_sequence(target)
                es = st + 30 if strand is PLUS else st + 100 - 50
                ok = ok and (lifted.start, lifted.end) == (es, es + 20) and str(lifted.extract_sequence()) == str(loc.extract_sequence())
            ok = ok and not loc.has_ancestor_sequence(alt)
            try:
                loc.lift_over_to_sequence(alt)
                ok = False
            except NoSuchAncestorException:
                pass
            try:
                AbstractInterval.liftover_location_to_seq_chunk_parent(loc, chunk_on(alt))
                ok = False
            except MismatchedParentException:
                pass
            relifted = AbstractInterval.liftover_location_to_seq_chunk_parent(loc, chunk_on(again))
            return ok and str(relifted.extract_sequence()) == str(loc.extract_sequence())

    return fn


def seq3_fn(sp, sq):
    """depth 3 by sequence identity: child on inner, inner on mid, mid on top; every child interval (native loop)"""

    def fn(ps, pe, qs, qe):
        ps, pe, qs, qe = concretize(ps, pe, qs, qe)
        with untraced():
            top_seq = Sequence(TAG12, Alphabet.NT_EXTENDED, id="top", type="type2")
            top = Parent(id="top", sequence_type="type2", sequence=top_seq)
            pl1 = SingleInterval(ps, pe, sp, parent=top)
            mid_seq = Sequence(str(pl1.extract_sequence()), Alphabet.NT_EXTENDED, id="mid", type="type1",
                               parent=Parent(id="top", sequence_type="type2", sequence=top_seq, location=SingleInterval(ps, pe, sp)))
            mid = Parent(id="mid", sequence_type="type1", sequence=mid_seq)
            pl2 = SingleInterval(qs, qe, sq, parent=mid)
            inner_seq = Sequence(str(pl2.extract_sequence()), Alphabet.NT_EXTENDED, id="inner", type="type0",
                                 parent=Parent(id="mid", sequence_type="type1", sequence=mid_seq, location=SingleInterval(qs, qe, sq),
                                               parent=mid_seq.parent))
            inner = Parent(id="inner", sequence_type="type0", sequence=inner_seq)
            n = qe - qs
            for sc in (PLUS, MINUS):
                for cs in range(n):
                    for ce in range(cs + 1, n + 1):
                        child = SingleInterval(cs, ce, sc, parent=inner)
                        want = str(child.extract_sequence())
                        a = child.lift_over_to_sequence(top_seq)
                        b = child.lift_over_to_first_ancestor_of_type("type2")
                        c = child.lift_over_to_sequence(mid_seq)
                        if not (str(a.extract_sequence()) == want and a == b and a.parent.id == "top" and len(a) == ce - cs
                                and str(c.extract_sequence()) == want and c.parent.id == "mid"
                                and a.strand is sc.relative_to(sq).relative_to(sp)):
                            return False
            return True

    return fn


def real_parsers_fn():
    """io.parser constructors produce the hierarchies the hand-built mirrors produce (when importable)"""

    def fn(w):
        from inscripta.biocantor.io.parser import seq_chunk_to_parent, seq_to_parent

        L = 12
        real = seq_chunk_to_parent(GENOME40[:L], "chr1", w, w + L)
        loc = SingleInterval(w + 2, w + 5, PLUS, parent=Parent(id="chr1", sequence_type=SequenceType.CHROMOSOME))
        a = AbstractInterval.liftover_location_to_seq_chunk_parent(loc, real)
        b = AbstractInterval.liftover_location_to_seq_chunk_parent(loc, chunk_parent(w, L))
        whole = seq_to_parent(GENOME40, seq_id="chr1")
        c = AbstractInterval.liftover_location_to_seq_chunk_parent(SingleInterval(2, 5, PLUS), whole)
        return AND(a.start == 2, a.end == 5, b.start == a.start, b.end == a.end,
                   a.lift_over_to_first_ancestor_of_type(SequenceType.CHROMOSOME).start == w + 2,
                   real.has_ancestor_of_type(SequenceType.CHROMOSOME), real.sequence.sequence_type == SequenceType.SEQUENCE_CHUNK,
                   c.start == 2, str(c.extract_sequence()) == GENOME40[2:5], whole.sequence_type == SequenceType.CHROMOSOME)

    return fn


def chunk_parents_by_content_fn():
    """two sequence chunks built by io.parser.seq_chunk_to_parent (and two chromosomes by seq_to_parent) for the same name / window / strand whose sequences
    differ in ONE base anywhere (first, interior, last): features built on each extract THEIR OWN bases, in either construction order, and so do the chunks
    AnnotationCollection.query_by_position cuts out of the two chromosomes"""

    def fn(e, d, where, order):
        e, d, where, order = concretize(e, d, where, order)
        with untraced():
            from inscripta.biocantor.gene.collections import AnnotationCollection
            from inscripta.biocantor.gene.feature import FeatureInterval, FeatureIntervalCollection
            from inscripta.biocantor.io.parser import seq_chunk_to_parent, seq_to_parent

            n = 2 ** e + d
            unit = "ACGTTGCAAGCTTAGGCTAACGTCA"
            base = (unit * (n // len(unit) + 1))[:n]
            pos = [0, 33, n // 2, n - 34, n - 1][where] % n
            other = base[:pos] + ("A" if base[pos] != "A" else "C") + base[pos + 1:]
            w = 1000
            seqs = [base, other] if order == 0 else [other, base]
            ok = True
            feats = []
            for sq in seqs:
                par = seq_chunk_to_parent(sq, "chr1", w, w + n)
                f = FeatureInterval([w], [w + n], PLUS, guid=5, parent_or_seq_chunk_parent=par)
                feats.append(f)
                ok = ok and str(f.get_spliced_sequence()) == sq
            ok = ok and all(str(f.get_spliced_sequence()) == sq for f, sq in zip(feats, seqs))
            for sq in seqs:
                whole = seq_to_parent(sq, seq_id="chr1")
                fc = FeatureIntervalCollection([FeatureInterval([0], [n], PLUS, guid=6, parent_or_seq_chunk_parent=whole)], guid=7, parent_or_seq_chunk_parent=whole)
                coll = AnnotationCollection(feature_collections=[fc], sequence_name="chr1", parent_or_seq_chunk_parent=whole)
                sub = coll.query_by_position(0, n, completely_within=False)
                ok = ok and str(list(sub.iter_children())[0].feature_intervals[0].get_spliced_sequence()) == sq
            # a location that already lives on the first chunk, re-lifted onto the second chunk (same name, window, strand; other bases), reads the SECOND
            # chunk's bases: "already on this chunk" must not be decided without looking at the sequence
            from inscripta.biocantor.exc import MismatchedParentException

            pa, pb = seq_chunk_to_parent(seqs[0], "chr1", w, w + n), seq_chunk_to_parent(seqs[1], "chr1", w, w + n)
            a, b = max(0, pos - 3), min(n, pos + 3)
            loc = SingleInterval(a, b, MINUS, parent=pa)
            try:
                moved = AbstractInterval.liftover_location_to_seq_chunk_parent(loc, pb)
                ok = ok and str(moved.extract_sequence()) == str(SingleInterval(a, b, MINUS, parent=pb).extract_sequence()) and (moved.start, moved.end) == (a, b)
            except MismatchedParentException:
                pass  # refusing a chunk of a different sequence is equally faithful
            return ok

    return fn


def explicit_parent_no_leak_fn():
    """Parent(sequence=S, parent=P): the hierarchy is a property of the Parent object built, not of the caller's Sequence S - S is left as it was (no parent),
    an equal copy of S is still recognised as the same sequence, S can be placed on another chromosome, and a location on free-standing S has no ancestors"""

    def fn(ps, pl, cs, cl):
        ps, pl, cs, cl = concretize(ps, pl, cs, cl)
        with untraced():
            seq = Sequence(TAG12[ps: ps + pl], Alphabet.NT_EXTENDED, id="mid", type="type0")
            copy = Sequence(TAG12[ps: ps + pl], Alphabet.NT_EXTENDED, id="mid", type="type0")
            top = Parent(id="top", sequence_type="type1", location=SingleInterval(ps, ps + pl, MINUS))
            placed = Parent(id="mid", sequence_type="type0", sequence=seq, parent=top)
            child = SingleInterval(cs, cs + cl, PLUS, parent=placed)
            lifted = child.lift_over_to_first_ancestor_of_type("type1")
            ok = (lifted.start, lifted.end) == (ps + pl - cs - cl, ps + pl - cs) and lifted.strand is MINUS
            ok = ok and seq.parent is None and seq == copy and copy == seq
            free = SingleInterval(cs, cs + cl, PLUS, parent=Parent(id="mid", sequence_type="type0", sequence=seq))
            ok = ok and not free.has_ancestor_of_type("type1")
            try:
                free.lift_over_to_first_ancestor_of_type("type1")
                ok = False
            except NoSuchAncestorException:
                pass
            ok = ok and child.lift_over_to_sequence(copy) is not None
            other_top = Parent(id="top2", sequence_type="type1", location=SingleInterval(0, pl, PLUS))
            placed2 = Parent(id="mid", sequence_type="type0", sequence=seq, parent=other_top)
            l2 = SingleInterval(cs, cs + cl, PLUS, parent=placed2).lift_over_to_first_ancestor_of_type("type1")
            return ok and (l2.start, l2.end) == (cs, cs + cl) and l2.parent.id == "top2"

    return fn


def parsers_importable():
    try:
        import inscripta.biocantor.io.parser  # noqa: F401

        return True
    except Exception:  # noqa
        return False


def obligations(tier):
    out = []
    quick = tier == "quick"
    strands = [PLUS, MINUS]
    # depth 2 (one placement level)
    combos = []
    for kc in (1, 2):
        for kp in (1, 2):
            if quick and kc == 2 and kp == 2:
                continue
            for sc in strands:
                for sp in strands:
                    combos.append((kc, sc, [(kp, sp)]))
    for kc, sc, shapes in combos:
        for idiom in (("loc_parent", "explicit", "explicit_locparent") if (kc, shapes[0][0]) == (1, 1) or not quick else ("loc_parent",)):
            tag = "c%d%s_on_%s_%s" % (kc, sname(sc)[0], "".join("%d%s" % (k, sname(s)[0]) for k, s in shapes), idiom)
            cost = {(1, 1): 3, (1, 2): 20, (2, 1): 20, (2, 2): 200}[(kc, shapes[0][0])]
            out.append(Obl("lift_depth2_" + tag, lift_fn(kc, sc, shapes, 1, idiom), lift_params(kc, shapes), lift_pre(kc, shapes),
                           budget=cost * 6 + 60, cost=cost,
                           desc="lift_over_to_first_ancestor_of_type: i-th base of the lifted location == placement.walk(child.walk(i)); strand = product; "
                                "length and ancestor identity preserved",
                           bounds="child %d blocks on a %d-block placement, unbounded ints" % (kc, shapes[0][0]),
                           examples=[lift_example(kc, shapes)]))
    # depth 3 / 4: single-block (quick) placements
    deep = [(1, PLUS, [(1, MINUS), (1, PLUS)]), (1, MINUS, [(1, MINUS), (1, MINUS)]), (2, MINUS, [(1, PLUS), (1, MINUS)])]
    if not quick:
        deep += [(1, PLUS, [(2, MINUS), (1, PLUS)]), (1, MINUS, [(1, MINUS), (2, PLUS)]), (2, PLUS, [(2, MINUS), (2, MINUS)]),
                 (1, MINUS, [(1, MINUS), (1, PLUS), (1, MINUS)]), (2, PLUS, [(1, MINUS), (1, MINUS), (1, PLUS)])]
    for kc, sc, shapes in deep:
        for upto in range(1, len(shapes) + 1):
            tag = "c%d%s_on_%s_to%d" % (kc, sname(sc)[0], "".join("%d%s" % (k, sname(s)[0]) for k, s in shapes), upto)
            cost = 10 * kc * max(k for k, _ in shapes) ** 2 * len(shapes)
            idiom = "explicit" if (upto + kc) % 2 else "explicit_locparent"
            out.append(Obl("lift_deep_" + tag, lift_fn(kc, sc, shapes, upto, idiom), lift_params(kc, shapes), lift_pre(kc, shapes),
                           budget=cost * 8 + 60, cost=cost,
                           desc="hierarchy of depth %d: lifting to level %d composes the point maps of every level in between" % (len(shapes) + 1, upto),
                           bounds="child %d blocks, placements %s, unbounded ints" % (kc, [k for k, _ in shapes]),
                           examples=[lift_example(kc, shapes)]))
    out.append(Obl("no_such_ancestor", no_ancestor_fn(), dict(cs0=int, cl0=int, p0s0=int, p0l0=int),
                   lambda cs0, cl0, p0s0, p0l0: cs0 >= 0 and cl0 >= 1 and p0s0 >= 0 and cs0 + cl0 <= p0l0, budget=60, cost=2,
                   desc="missing ancestor type / parent-less location => NoSuchAncestorException; own type => same object",
                   bounds="1 block", examples=[dict(cs0=1, cl0=2, p0s0=4, p0l0=9)]))
    # chunk legs
    for k in (1, 2):
        for strand in strands:
            for cs in strands:
                if quick and cs is MINUS and k == 2:
                    continue
                L = 12
                params = dict(layout_params(k))
                params.update(w=int, p=int)
                ex = dict({"s0": 103, "w": 100, "p": 104}, **{"l%d" % i: 3 for i in range(k)}, **{"g%d" % i: 2 for i in range(1, k)})
                o = Obl("chunk_k%d_%s_chunk%s" % (k, sname(strand), sname(cs)), chunk_fn(k, strand, cs, L), params,
                        (lambda k: (lambda **kw: layout_pre(k, kw, min_len=0, min_gap=0) and kw["w"] >= 0))(k),
                        budget=300 * k, cost=15 * k * k * k,
                        desc="chromosome location lifted onto a chunk and back == its part inside the chunk window (position set, strand); "
                             "chunk-relative coordinates = offset from the chunk start (mirrored on a minus chunk); disjoint => EmptyLocation",
                        bounds="%d blocks (len>=0, gaps>=0), chunk of length %d at symbolic offset on the %s strand" % (k, L, sname(cs)),
                        examples=[ex, dict(ex, w=300)])
                out.append(o)
    for strand in strands:
        for cs in strands:
            out.append(Obl("rechunk_%s_chunk%s" % (sname(strand), sname(cs)), rechunk_fn(strand, cs, 12),
                           dict(s0=int, l0=int, w=int, w2=int, p=int), lambda s0, l0, w, w2, p: s0 >= 0 and l0 >= 1 and w >= 0 and w2 >= 0,
                           budget=300, cost=30,
                           desc="a chunk-relative location lifted onto a second chunk covers exactly the bases inside both windows",
                           bounds="1 block, two chunks of length 12 at symbolic offsets (first on the %s strand)" % sname(cs),
                           examples=[dict(s0=103, l0=5, w=100, w2=104, p=105)]))
    # sequence legs
    for sc in strands:
        for sp in strands:
            out.append(Obl("sequence_preserved_%s_%s" % (sname(sc), sname(sp)), seq_fn(sc, sp), dict(cs=int, ce=int, ps=int, pe=int),
                           lambda cs, ce, ps, pe: 0 <= ps and ps < pe and pe <= 12 and 0 <= cs and cs < ce and ce <= pe - ps,
                           budget=600, cost=40,
                           desc="lift_over_to_sequence / by type: the lifted location extracts the same sequence from the ancestor; unknown sequence refused",
                           bounds="every child interval on every placement interval of a 12-letter tagged sequence", examples=[dict(cs=1, ce=3, ps=2, pe=9)]))
    for sp in strands:
        for sq in strands:
            out.append(Obl("sequence_depth3_%s_%s" % (sname(sp), sname(sq)), seq3_fn(sp, sq), dict(ps=int, pe=int, qs=int, qe=int),
                           lambda ps, pe, qs, qe: 0 <= ps and ps < pe and pe <= 12 and 0 <= qs and qs < qe and qe <= pe - ps and qe - qs <= 6,
                           budget=900, cost=60,
                           desc="three-level hierarchy: lifting by sequence identity (to the grand-parent and to the top) and by type agree, extract the "
                                "same sequence from the ancestor, strand = product of the three strands",
                           bounds="every placement pair on a 12-letter tagged sequence (inner length <= 6), every child interval, both child strands",
                           examples=[dict(ps=2, pe=11, qs=1, qe=6)]))
    if parsers_importable():
        out.append(Obl("io_parser_parents_by_content", chunk_parents_by_content_fn(), dict(e=int, d=int, where=int, order=int),
                       lambda e, d, where, order: 5 <= e and e <= (9 if quick else 14) and -1 <= d and d <= 1 and 0 <= where and where <= 4 and 0 <= order and order <= 1,
                       budget=900, cost=60,
                       desc="io.parser.seq_chunk_to_parent / seq_to_parent for two sequences of the same name, window, strand and length (31..%d nt) that differ in one "
                            "base (first / 34th / middle / 34th from the end / last): features on each, and the chunks a position query cuts out of each, spell their own "
                            "sequence in either order" % (2 ** (9 if quick else 14) + 1),
                       bounds="lengths 2^e-1..2^e+1 for e = 5..%d x 5 edit positions x 2 orders (closed by the solver)" % (9 if quick else 14),
                       examples=[dict(e=7, d=1, where=2, order=0), dict(e=5, d=0, where=0, order=1)]))
        out.append(Obl("real_io_parser_constructors", real_parsers_fn(), dict(w=int), lambda w: w >= 0, budget=120, cost=5,
                       desc="io.parser.seq_chunk_to_parent / seq_to_parent build hierarchies through which lift-over gives chunk offsets and back",
                       bounds="chunk of length 12 at symbolic offset", examples=[dict(w=100)]))
    # overlapping placements (outside the design's first bound): a child with non-overlapping blocks lifted through a placement that duplicates bases
    for kc in (1, 2):
        for sc in (PLUS, MINUS):
            for sp in (PLUS, MINUS):
                shapes = [(2, sp)]
                ex = {"cs0": 4, "i": 7, "cl0": 6, "p0s0": 2, "p0l0": 10, "p0l1": 14, "p0g1": -2}
                if kc == 2:
                    ex.update(cl1=6, cg1=0)
                out.append(Obl("lift_overlapping_placement_c%d%s_on_2%s" % (kc, sname(sc)[0], sname(sp)[0]), lift_fn(kc, sc, shapes, 1, "loc_parent", ordered=False),
                               lift_params(kc, shapes), lift_ov_pre(kc, sp), budget=600, cost=60,
                               desc="child (%d block(s)) lifted through a placement of two OVERLAPPING blocks: the lifted location has the child's length (bases the "
                                    "placement duplicates stay duplicated) and covers the image of every child base under the composed point maps (block order "
                                    "is the library's sorted normal form, cf. F12)" % kc,
                               bounds="child %d block(s) (gaps >= 0), placement 2 overlapping blocks with distinct starts, unbounded symbolic coordinates" % kc,
                               examples=[ex]))
    for sc, sp in (((PLUS, PLUS), (MINUS, PLUS)) if quick else ((PLUS, PLUS), (MINUS, PLUS), (PLUS, MINUS), (MINUS, MINUS))):
        out.append(Obl("lift_many_blocks_c20%s_on_2%s" % (sname(sc)[0], sname(sp)[0]), lift_many_fn(20, sc, sp), dict(cs=int, L=int, G=int, ps=int, pl0=int, pg=int, extra=int),
                       lambda cs, L, G, ps, pl0, pg, extra: 0 <= cs and cs <= 1 and 2 <= L and L <= 3 and 1 <= G and G <= 2 and ps == 3 and 1 <= pl0 and
                       pl0 <= cs + 20 * (L + G) and pg == 2 and 0 <= extra and extra <= 1, budget=1800, cost=240,
                       desc="child of 20 blocks lifted through a two-block placement whose junction falls anywhere (inside a child block, in a child gap, before or after "
                            "the child): the lifted location has the child's length and its i-th base is placement.walk(child.walk(i)) for every i; blocks disjoint and sorted",
                       bounds="20 child blocks of common length 2..3 and gap 1..2 starting at 0..1; placement junction after 1..all positions, placement start 3, gap 2 (realised)",
                       examples=[dict(cs=1, L=3, G=2, ps=3, pl0=30, pg=2, extra=0), dict(cs=0, L=2, G=1, ps=3, pl0=7, pg=2, extra=1)]))
    out.append(Obl("lift_by_sequence_identity_long_chromosomes", long_seq_identity_fn(), dict(ln=int, where=int, cstrand=int),
                   lambda ln, where, cstrand: 0 <= ln and ln <= (3 if quick else 4) and 0 <= where and where <= 5 and 0 <= cstrand and cstrand <= 1, budget=900, cost=60,
                   desc="long named chromosomes: an equal copy is an ancestor (lift-over by sequence identity works and keeps the sequence), a copy with ONE edited base "
                        "is not (has_ancestor_sequence False, lift_over_to_sequence and re-lifting onto its chunk refused)",
                   bounds="lengths 4097, 65537, 100001, 131073%s x edited base first/middle/last/65535/65536/99999 x chunk strand (closed by the solver)" % (
                       "" if quick else ", 1000003"), examples=[dict(ln=2, where=1, cstrand=0), dict(ln=0, where=2, cstrand=1)]))
    out.append(Obl("explicit_parent_does_not_leak_into_the_sequence", explicit_parent_no_leak_fn(), dict(ps=int, pl=int, cs=int, cl=int),
                   lambda ps, pl, cs, cl: 0 <= ps and ps <= 3 and 4 <= pl and pl <= 8 and 0 <= cs and 1 <= cl and cs + cl <= pl and cl <= 3, budget=300, cost=20,
                   desc="hierarchy level declared as Parent(sequence=S, parent=P): lift-over composes through it, and the caller's Sequence S is untouched - no parent "
                        "attached, equal to its copy, usable under another chromosome, without ancestors when used free-standing",
                   bounds="placement 4..8 nt at 0..3 on a 12-nt top sequence, child intervals of 1..3 nt (realised)", examples=[dict(ps=2, pl=6, cs=1, cl=2)]))
    out.append(Obl("lift_twin_hierarchies", twin_hierarchies_fn(), dict(cs=int, cl=int, order=int),
                   lambda cs, cl, order: 0 <= cs and 1 <= cl and cs + cl <= 50 and 0 <= order and order <= 3 and (cs % 7 == 1) and (cl % 9 == 2 or cl == 1), budget=300, cost=20,
                   desc="two hierarchies identical below the chromosome level, one with and one without an assembly above it, built in either order in one process "
                        "(real Parent cache): lift-over and ancestor tests answer for each location's own hierarchy, before and after the other one is used",
                   bounds="child interval grid inside a 50-nt feature, 4 build orders (realised, native body)", examples=[dict(cs=1, cl=2, order=0), dict(cs=8, cl=11, order=1)]))
    return out
