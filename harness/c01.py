"""C01 — Location <-> parent coordinate maps are exact, mutually inverse and strand-aware."""
from inscripta.biocantor.exc import (
    BioCantorException,
    InvalidPositionException,
    LocationOverlapException,
)

from harness.common import (
    AND, DEQ, IFF, ITE, MINUS, NOT, OR, PLUS, SUM, CompoundInterval, EmptyLocation, SingleInterval, Strand, blocks_of,
    layout_blocks, layout_params, layout_pre, make_location, member, rel_of_pos, same_blocks, sname, total_len, walk_pos,
    wellformed,
)
from vlib.obl import Obl, split_cubes

META = dict(
    functions=[
        "SingleInterval.relative_to_parent_pos/parent_to_relative_pos/relative_interval_to_parent_location/_location_relative_to",
        "CompoundInterval.__init__/_sort_starts_ends/scan_blocks/relative_to_parent_pos/parent_to_relative_pos/"
        "relative_interval_to_parent_location/_location_relative_to/optimize_blocks/_combine_blocks/reset_strand",
        "Location.location_relative_to/parent_to_relative_location", "Strand.relative_to",
        "FeatureInterval.sequence_pos_to_feature/feature_pos_to_sequence/sequence_interval_to_feature/feature_interval_to_sequence",
    ],
    bounds=dict(
        quick="k<=3 blocks (non-overlapping, 0-length blocks and 0-bp gaps included), query location <=2 blocks; "
              "all coordinates, indexes and sub-intervals are unbounded integers",
        thorough="k<=4 non-overlapping, k<=3 with overlapping blocks, query location <=3 blocks; unbounded integers",
    ),
    outside="k>4 blocks; UNSTRANDED locations (only their rejection is checked); parents carrying sequence (C03/C04)",
    stubs=["S1 format placeholder", "S2 __bool__=len!=0", "S4 digest const", "S5 bins const", "S6 caches bypassed",
           "S11 no short-circuiting"],
    assumptions=["CPython semantics as modelled by CrossHair 0.0.110", "z3 5.1 soundness",
                 "reference block-walk oracle (harness/common.py) is the specification of 5'->3' enumeration"],
)

REFUSE = (InvalidPositionException, ValueError)


def _mk(k, strand, kw, force_compound=False, min_gap=0):
    bl = layout_blocks(k, kw)
    return bl, make_location(bl, strand, force_compound=force_compound)


# ------------------------------------------------------------------ 1. relative -> parent
def r2p(k, strand, force_compound=False):
    def fn(**kw):
        bl, loc = _mk(k, strand, kw, force_compound)
        r = kw["r"]
        in_range = AND(r >= 0, r < total_len(bl))
        try:
            got = loc.relative_to_parent_pos(r)
        except REFUSE:
            return NOT(in_range)
        return AND(in_range, got == walk_pos(bl, strand, r))

    return fn


def many_blocks(k, strand, which):
    """locations with MANY blocks (size-dependent code paths such as a binary search over cumulative lengths only start at some block count):
    k blocks of symbolic common length and common gap plus one symbolic extra length on a symbolic block, so block boundaries stay fully symbolic"""

    def fn(s0, L, G, x, r):
        bl, cur = [], s0
        for i in range(k):
            n = L + (x if i == k // 3 else 0)
            bl.append((cur, cur + n))
            cur = cur + n + G
        loc = make_location(bl, strand, force_compound=True)
        if which == "r2p":
            in_range = AND(r >= 0, r < total_len(bl))
            try:
                got = loc.relative_to_parent_pos(r)
            except REFUSE:
                return NOT(in_range)
            return AND(in_range, got == walk_pos(bl, strand, r), loc.parent_to_relative_pos(got) == r)
        inside = member(r, bl)
        try:
            got = loc.parent_to_relative_pos(r)
        except InvalidPositionException:
            return NOT(inside)
        return AND(inside, got == rel_of_pos(bl, strand, r), loc.relative_to_parent_pos(got) == r)

    return fn


# ------------------------------------------------------------------ 2. parent -> relative
def p2r(k, strand, force_compound=False):
    def fn(**kw):
        bl, loc = _mk(k, strand, kw, force_compound)
        p = kw["p"]
        inside = member(p, bl)
        try:
            got = loc.parent_to_relative_pos(p)
        except InvalidPositionException:
            return NOT(inside)
        # exact index, and round trip through the other map
        back = loc.relative_to_parent_pos(got)
        return AND(inside, got == rel_of_pos(bl, strand, p), back == p)

    return fn


def p2r_overlapping(k, strand):
    """overlapping layouts: signed gaps. parent->relative must return SOME index whose base is p (inverse up to
    multiplicity), reject exactly the uncovered positions."""

    def fn(**kw):
        bl, loc = _mk(k, strand, kw, True)
        p = kw["p"]
        sb = [(b.start, b.end) for b in loc.blocks]
        inside = member(p, bl)
        try:
            got = loc.parent_to_relative_pos(p)
        except InvalidPositionException:
            return NOT(inside)
        return AND(inside, got >= 0, got < total_len(bl), walk_pos(sb, strand, got) == p,
                   loc.relative_to_parent_pos(got) == p)

    return fn


def p2r_derived(k, strand, how):
    """the same claim on a location that is the RESULT of another operation (optimize_blocks keeps overlapping blocks but rebuilds the object when it
    drops an empty block or merges an adjacent pair; a whole-length sub-interval): derived objects must answer like freshly built ones"""

    def fn(**kw):
        bl, loc = _mk(k, strand, kw, True)
        p = kw["p"]
        d = loc.optimize_blocks() if how == "optimize" else loc.relative_interval_to_parent_location(0, total_len(bl), Strand.PLUS)
        if d is EmptyLocation():
            return total_len(bl) == 0
        sb = [(b.start, b.end) for b in d.blocks]
        inside = member(p, bl)
        try:
            got = d.parent_to_relative_pos(p)
        except InvalidPositionException:
            return NOT(inside)
        return AND(inside, got >= 0, got < total_len(sb), walk_pos(sb, d.strand, got) == p, d.relative_to_parent_pos(got) == p, total_len(sb) == total_len(bl))

    return fn


def flip_derived(k, strand, how, warm):
    """strand-flipped / re-parented COPIES of a location (blocks may overlap, nest or share a start - the block order of such layouts depends on the strand)
    answer every point query like a location built afresh with the new strand, whatever was asked of the source before the copy was made"""

    def fn(**kw):
        bl, loc = _mk(k, strand, kw, True)
        r, p = kw["r"], kw["p"]
        if warm:  # fill the source's lazy slots first
            try:
                loc.relative_to_parent_pos(0)
                loc.parent_to_relative_pos(bl[0][0])
            except InvalidPositionException:
                pass
        new_strand = strand.reverse() if how != "same" else strand
        d = {"reverse": lambda: loc.reverse_strand(), "reset": lambda: loc.reset_strand(new_strand), "same": lambda: loc.reset_strand(strand)}[how]()
        fresh = CompoundInterval([b[0] for b in bl], [b[1] for b in bl], new_strand)
        n = total_len(bl)
        conds = [d.strand is new_strand, len(d) == n, DEQ([(b.start, b.end) for b in d.blocks], [(b.start, b.end) for b in fresh.blocks])]
        try:
            a = d.relative_to_parent_pos(r)
        except InvalidPositionException:
            a = None
        try:
            b = fresh.relative_to_parent_pos(r)
        except InvalidPositionException:
            b = None
        conds.append((a is None and b is None) if (a is None or b is None) else a == b)
        try:
            a = d.parent_to_relative_pos(p)
        except InvalidPositionException:
            a = None
        try:
            b = fresh.parent_to_relative_pos(p)
        except InvalidPositionException:
            b = None
        conds.append((a is None and b is None) if (a is None or b is None) else a == b)
        return AND(*conds)

    return fn


def scan_windows_overlapping(k, strand):
    """scan_windows over a location whose blocks may overlap / nest: the i-th window is relative_interval_to_parent_location(start + i*step, .. + w) - every
    window, not only the first (compared block for block and base for base). Realised leg."""
    from vlib.sym import concretize, untraced

    def fn(**kw):
        names = sorted(kw)
        vals = concretize(*[kw[n] for n in names])
        kw = dict(zip(names, vals if isinstance(vals, list) else [vals]))
        with untraced():
            bl, loc = _mk(k, strand, kw, True)
            w, step, start = kw["w"], kw["step"], kw["start"]
            n = sum(e - s_ for s_, e in bl)
            wins = list(loc.scan_windows(w, step, start))
            if len(wins) != len(range(start, n - w + 1, step)):
                return False
            for i, win in enumerate(wins):
                ref = loc.relative_interval_to_parent_location(start + i * step, start + i * step + w, Strand.PLUS)
                if len(win) != w or win.strand is not strand or [(b.start, b.end) for b in win.blocks] != [(b.start, b.end) for b in ref.blocks]:
                    return False
                if [win.relative_to_parent_pos(j) for j in range(w)] != [ref.relative_to_parent_pos(j) for j in range(w)]:
                    return False
                # the window holds the right bases (as a multiset: the order inside a sub-interval of overlapping blocks is finding F12)
                if sorted(win.relative_to_parent_pos(j) for j in range(w)) != sorted(loc.relative_to_parent_pos(start + i * step + j) for j in range(w)):
                    return False
            return True

    return fn


# ------------------------------------------------------------------ 3. relative sub-interval -> parent location
def sub(k, strand, rel_strand, force_compound=False):
    def fn(**kw):
        bl, loc = _mk(k, strand, kw, force_compound)
        a, b, i = kw["a"], kw["b"], kw["i"]
        n = total_len(bl)
        valid = AND(0 <= a, a <= b, b <= n)
        try:
            res = loc.relative_interval_to_parent_location(a, b, rel_strand)
        except REFUSE:
            # refusal is right for invalid requests; an EMPTY request (a == b) may be answered or refused
            return OR(NOT(valid), a == b)
        if not valid:
            return False
        rb = blocks_of(res)
        exp_strand = strand.relative_to(rel_strand)
        if res.strand is not exp_strand:
            return False
        # i-th base of the result (5'->3' on the result's own strand) is the (a+i)-th resp. (b-1-i)-th base of the walk
        src = (a + i) if rel_strand is PLUS else (b - 1 - i)
        conds = [len(res) == b - a]
        conds.append(OR(NOT(AND(0 <= i, i < b - a)), walk_pos(rb, exp_strand, i) == walk_pos(bl, strand, src)))
        # normalised: sorted, no empty block, no mergeable neighbours (non-overlapping input)
        for s, e in rb:
            conds.append(OR(s < e, a == b))
        for (s1, e1), (s2, e2) in zip(rb, rb[1:]):
            conds.append(e1 < s2)
        return AND(*conds)

    return fn


def r2p_overlapping(k, strand):
    """signed gaps (overlap / nesting / any order): relative->parent must enumerate the SORTED blocks' bases 5'->3'"""

    def fn(**kw):
        bl, loc = _mk(k, strand, kw, True)
        r = kw["r"]
        sb = [(b.start, b.end) for b in loc.blocks]  # the library's own (sorted) block order defines the walk
        in_range = AND(r >= 0, r < total_len(bl))
        try:
            got = loc.relative_to_parent_pos(r)
        except REFUSE:
            return NOT(in_range)
        return AND(in_range, got == walk_pos(sb, strand, r), member(got, bl))

    return fn


def sub_overlapping(k, strand, rel_strand, ordered_claim=False):
    """overlapping / nested layouts. ordered_claim=False: the result covers exactly the MULTISET of bases the point-wise
    map yields for [a, b) (a CompoundInterval re-sorts its blocks, so order is a separate claim: known finding F12);
    ordered_claim=True: additionally the i-th base equals the point-wise map's."""

    def fn(**kw):
        bl, loc = _mk(k, strand, kw, True)
        a, b, i, p = kw["a"], kw["b"], kw["i"], kw["p"]
        sb = [(x.start, x.end) for x in loc.blocks]
        n = total_len(bl)
        valid = AND(0 <= a, a <= b, b <= n)
        try:
            res = loc.relative_interval_to_parent_location(a, b, rel_strand)
        except REFUSE:
            return OR(NOT(valid), a == b)
        if not valid:
            return False
        rb = blocks_of(res)
        exp_strand = strand.relative_to(rel_strand)
        if res.strand is not exp_strand:
            return False
        # number of walk indexes in [a, b) whose base is p
        seq = sb if strand is PLUS else list(reversed(sb))
        terms, cum = [], 0
        for s_, e_ in seq:
            idx = cum + ((p - s_) if strand is PLUS else (e_ - 1 - p))
            terms.append(ITE(AND(s_ <= p, p < e_, a <= idx, idx < b), 1, 0))
            cum = cum + (e_ - s_)
        from harness.common import mult
        conds = [len(res) == b - a, mult(p, rb) == SUM(terms)]
        if ordered_claim:
            src = (a + i) if rel_strand is PLUS else (b - 1 - i)
            conds.append(OR(NOT(AND(0 <= i, i < b - a)), walk_pos(rb, exp_strand, i) == walk_pos(sb, strand, src)))
        return AND(*conds)

    return fn


def _overlap_pre(k, sorted_starts=False):
    def pre(**kw):
        if not kw["s0"] >= 0:
            return False
        for i in range(k):
            if not kw["l%d" % i] >= 0:
                return False
        prev = None
        for s, e in layout_blocks(k, kw):
            if not s >= 0:
                return False
            if sorted_starts and prev is not None and not s >= prev:
                return False  # WLOG: the constructor sorts blocks (arbitrary input order is covered by r2p_overlapping)
            prev = s
        return True

    return pre


# ------------------------------------------------------------------ 4. parent location -> relative location
def relloc(k, strand, kq, qstrand, force_compound=False):
    def fn(**kw):
        bl, loc = _mk(k, strand, kw, force_compound)
        qb = layout_blocks(kq, kw, "q")
        q = make_location(qb, qstrand)
        r = kw["r"]
        n = total_len(bl)
        # do they share a position?
        try:
            res = loc.parent_to_relative_location(q)
        except LocationOverlapException:
            # refused: then NO position may be shared. Witness position: the probe r
            return OR(NOT(AND(0 <= r, r < n)), NOT(member(walk_pos(bl, strand, r), qb)))
        rb = blocks_of(res)
        conds = [res.strand is qstrand.relative_to(strand)]
        conds.append(wellformed(res))
        if rb:
            conds.append(AND(rb[0][0] >= 0, rb[-1][1] <= n))
        # r in result  <=>  r-th base of loc lies in q
        in_res = member(r, rb)
        conds.append(OR(NOT(AND(0 <= r, r < n)), IFF(in_res, member(walk_pos(bl, strand, r), qb))))
        conds.append(OR(AND(0 <= r, r < n), NOT(in_res)))
        # the conversion leaves both operands as they were (block order included): compared with untouched twins
        conds.append(same_blocks(blocks_of(q), blocks_of(make_location(qb, qstrand))))
        conds.append(same_blocks(blocks_of(loc), blocks_of(_mk(k, strand, kw, force_compound)[1])))
        return AND(*conds)

    return fn


def relloc_overlap_exists(k, strand, kq, qstrand):
    """companion of relloc: whenever a shared position p exists the call must NOT be refused"""

    def fn(**kw):
        bl, loc = _mk(k, strand, kw)
        qb = layout_blocks(kq, kw, "q")
        q = make_location(qb, qstrand)
        p = kw["p"]
        shared = AND(member(p, bl), member(p, qb))
        try:
            loc.parent_to_relative_location(q)
        except LocationOverlapException:
            return NOT(shared)
        return True

    return fn


# ------------------------------------------------------------------ 5. wrappers on FeatureInterval
def feature_wrappers(k, strand):
    from inscripta.biocantor.gene.feature import FeatureInterval

    def fn(**kw):
        bl = layout_blocks(k, kw)
        f = FeatureInterval([b[0] for b in bl], [b[1] for b in bl], strand, guid=11)
        p, r = kw["p"], kw["r"]
        n = total_len(bl)
        conds = []
        try:
            got = f.sequence_pos_to_feature(p)
            conds.append(AND(member(p, bl), got == rel_of_pos(bl, strand, p), f.feature_pos_to_sequence(got) == p))
        except InvalidPositionException:
            conds.append(NOT(member(p, bl)))
        try:
            got = f.feature_pos_to_sequence(r)
            conds.append(AND(0 <= r, r < n, got == walk_pos(bl, strand, r), f.sequence_pos_to_feature(got) == r))
        except REFUSE:
            conds.append(NOT(AND(0 <= r, r < n)))
        return AND(*conds)

    return fn


def feature_interval_wrappers(k, strand):
    from inscripta.biocantor.gene.feature import FeatureInterval

    def fn(**kw):
        bl = layout_blocks(k, kw)
        f = FeatureInterval([b[0] for b in bl], [b[1] for b in bl], strand, guid=11)
        a, b, i = kw["a"], kw["b"], kw["i"]
        n = total_len(bl)
        res = f.feature_interval_to_sequence(a, b, PLUS)
        rb = blocks_of(res)
        conds = [res.strand is strand, len(res) == b - a,
                 OR(NOT(AND(0 <= i, i < b - a)), walk_pos(rb, strand, i) == walk_pos(bl, strand, a + i))]
        # and back: the chromosome span of the result maps to a feature-relative location covering [a, b)
        back = f.sequence_interval_to_feature(res.start, res.end, strand)
        bb = blocks_of(back)
        conds.append(AND(bb[0][0] == a, bb[-1][1] == b, back.strand is PLUS))
        return AND(*conds)

    return fn


# ------------------------------------------------------------------ catalogue
def _lp(k, extra, min_gap=0, min_len=0, q=None, qmin_len=0, qmin_gap=0):
    params = dict(layout_params(k))
    if q:
        params.update(layout_params(q, "q"))
    params.update(extra)

    def pre(**kw):
        if not layout_pre(k, kw, min_len=min_len, min_gap=min_gap):
            return False
        if q and not layout_pre(q, kw, "q", min_len=qmin_len, min_gap=qmin_gap):
            return False
        return True

    return params, pre


def _ex(k, q=None, **extra):
    e = {"s0": 3}
    for i in range(k):
        e["l%d" % i] = 2 + i
    for i in range(1, k):
        e["g%d" % i] = 1
    if q:
        e["qs0"] = 4
        for i in range(q):
            e["ql%d" % i] = 3
        for i in range(1, q):
            e["qg%d" % i] = 2
    e.update(extra)
    return e


# measured CPU seconds (16-core box) per (k, kq) for the relative-location obligations
RELLOC_COST = {(1, 1): 2, (1, 2): 17, (2, 1): 9, (3, 1): 47, (2, 2): 125, (1, 3): 150, (2, 3): 900, (3, 2): 900,
               (4, 1): 300}


def obligations(tier):
    out = []
    ks = [1, 2, 3] if tier == "quick" else [1, 2, 3, 4]
    for strand in (PLUS, MINUS):
        sn = sname(strand)
        for k in ks:
            for fc in ([False, True] if k == 1 else [False]):
                tag = "k%d%s_%s" % (k, "c" if fc else "", sn)
                params, pre = _lp(k, {"r": int})
                out.append(Obl("r2p_" + tag, r2p(k, strand, fc), params, pre, budget=60 + 60 * k, cost=2 + k,
                               desc="relative_to_parent_pos(r) is the r-th base of the 5'->3' block walk; out-of-range r refused",
                               bounds="k=%d blocks, lengths>=0, gaps>=0, unbounded ints" % k,
                               examples=[_ex(k, r=1), _ex(k, r=-1)]))
                params, pre = _lp(k, {"p": int})
                out.append(Obl("p2r_" + tag, p2r(k, strand, fc), params, pre, budget=60 + 60 * k, cost=2 + k,
                               desc="parent_to_relative_pos(p) is the index of p in the walk and inverts relative_to_parent_pos; uncovered p refused",
                               bounds="k=%d blocks, lengths>=0, gaps>=0, unbounded ints" % k,
                               examples=[_ex(k, p=4), _ex(k, p=0)]))
                for rs in (PLUS, MINUS):
                    params, pre = _lp(k, {"a": int, "b": int, "i": int})
                    out.append(Obl("sub_%s_rel%s" % (tag, sname(rs)), sub(k, strand, rs, fc), params, pre,
                                   budget=90 + 90 * k, cost=3 + 3 * k,
                                   desc="relative_interval_to_parent_location(a,b,s): i-th base equals walk[a+i] (s=+) / walk[b-1-i] (s=-), "
                                        "strand composed, length b-a, blocks normalised; invalid (a,b) refused",
                                   bounds="k=%d blocks, lengths>=0, gaps>=0, unbounded ints" % k,
                                   examples=[_ex(k, a=0, b=2, i=1), _ex(k, a=1, b=1, i=0), _ex(k, a=2, b=1, i=0)]))
            # relative-location form
            qks = [1, 2] if tier == "quick" else [1, 2, 3]
            for kq in qks:
                if tier == "quick" and k + kq > 3:
                    continue
                if k + kq > 5:
                    continue
                for qs in (PLUS, MINUS):
                    tag = "k%d_%s_q%d_%s" % (k, sn, kq, sname(qs))
                    params, pre = _lp(k, {"r": int}, q=kq)
                    out.append(Obl("relloc_" + tag, relloc(k, strand, kq, qs), params, pre,
                                   budget=RELLOC_COST[(k, kq)] * 4 + 60, cost=RELLOC_COST[(k, kq)],
                                   desc="parent_to_relative_location(Q): r in result <=> r-th base of L lies in Q; strand = Q.strand o L.strand; "
                                        "result normalised and within [0,len); refusal only when no probe position is shared",
                                   bounds="L k=%d, Q k=%d blocks, lengths>=0, gaps>=0, unbounded ints" % (k, kq),
                                   examples=[_ex(k, q=kq, r=1)]))
                    params, pre = _lp(k, {"p": int}, q=kq)
                    out.append(Obl("relloc_noreject_" + tag, relloc_overlap_exists(k, strand, kq, qs), params, pre,
                                   budget=RELLOC_COST[(k, kq)] * 4 + 60, cost=RELLOC_COST[(k, kq)],
                                   desc="parent_to_relative_location(Q) is not refused when L and Q share a position",
                                   bounds="L k=%d, Q k=%d blocks" % (k, kq), examples=[_ex(k, q=kq, p=4)]))
        # wrappers
        for k in ([1, 2] if tier == "quick" else [1, 2, 3]):
            params, pre = _lp(k, {"p": int, "r": int}, min_len=1, min_gap=1)
            out.append(Obl("feature_pos_k%d_%s" % (k, sn), feature_wrappers(k, strand), params, pre,
                           budget=120 + 60 * k, cost=5 + 3 * k,
                           desc="FeatureInterval.sequence_pos_to_feature / feature_pos_to_sequence agree with the block walk and invert each other",
                           bounds="k=%d exons, lengths>=1, gaps>=1, unbounded ints" % k, examples=[_ex(k, p=4, r=1)]))
            params, pre0 = _lp(k, {"a": int, "b": int, "i": int}, min_len=1, min_gap=1)

            def pre(pre0=pre0, k=k, **kw):
                if not pre0(**kw):
                    return False
                n = sum(kw["l%d" % j] for j in range(k))
                return 0 <= kw["a"] < kw["b"] <= n

            out.append(Obl("feature_iv_k%d_%s" % (k, sn), feature_interval_wrappers(k, strand), params, pre,
                           budget=120 + 90 * k, cost=5 + 5 * k,
                           desc="FeatureInterval.feature_interval_to_sequence yields the walk's bases a..b; sequence_interval_to_feature of its span returns [a,b)",
                           bounds="k=%d exons, lengths>=1, gaps>=1, 0<=a<b<=len" % k, examples=[_ex(k, a=0, b=2, i=1)]))
    if tier == "quick":
        # light (2,2) variant: no empty blocks, no 0-bp gaps (the full (2,2) space runs in the thorough tier)
        for strand, qs in ((PLUS, PLUS), (MINUS, PLUS)):
            params, pre = _lp(2, {"r": int}, q=2, min_len=1, min_gap=1, qmin_len=1, qmin_gap=1)
            out.append(Obl("relloc_light_k2_%s_q2_%s" % (sname(strand), sname(qs)), relloc(2, strand, 2, qs), params, pre,
                           budget=400, cost=60,
                           desc="parent_to_relative_location(Q), 2x2 blocks without empty blocks/0-bp gaps: r in result <=> r-th base of L in Q",
                           bounds="L k=2, Q k=2, lengths>=1, gaps>=1, unbounded ints", examples=[_ex(2, q=2, r=1)]))
    # many blocks
    for strand in (PLUS, MINUS):
        for k in ((17,) if tier == "quick" else (17, 40)):
            for which in ("r2p", "p2r"):
                out.append(Obl("%s_many_k%d_%s" % (which, k, sname(strand)), many_blocks(k, strand, which), dict(s0=int, L=int, G=int, x=int, r=int),
                               lambda s0, L, G, x, r: s0 >= 0 and L >= 1 and G >= 1 and x >= 0, budget=900, cost=60,
                               desc="%d-block location (common symbolic block length and gap, one block longer by a symbolic amount): %s equals the block walk and is "
                                    "inverted by the other map; positions outside refused" % (k, "relative_to_parent_pos" if which == "r2p" else "parent_to_relative_pos"),
                               bounds="k=%d blocks, unbounded symbolic start / length / gap / extra length / position" % k,
                               examples=[dict(s0=100, L=7, G=3, x=2, r=7), dict(s0=100, L=7, G=3, x=0, r=116)]))
    # overlapping / nested layouts (signed gaps)
    for strand in (PLUS, MINUS):
        for k in ((2, 3) if tier == "quick" else (2, 3, 4)):
            ex2 = dict(s0=5, l0=6, l1=4, g1=-3) if k == 2 else dict(s0=0, l0=6, l1=4, l2=2, g1=-2, g2=2)
            if k == 4:
                ex2 = dict(s0=0, l0=6, l1=4, l2=2, l3=3, g1=-2, g2=2, g3=-1)
            params = dict(layout_params(k))
            params["r"] = int
            out.append(Obl("r2p_overlapping_k%d_%s" % (k, sname(strand)), r2p_overlapping(k, strand), params, _overlap_pre(k),
                           budget=300 * (k - 1), cost=[0, 0, 3, 30, 300][k],
                           desc="overlapping/nested blocks: relative_to_parent_pos enumerates the sorted blocks' bases 5'->3'",
                           bounds="k=%d blocks with signed gaps (overlap, nesting, any order), unbounded ints" % k,
                           examples=[dict(ex2, r=7)]))
            for rs in (PLUS, MINUS):
                if tier == "quick" and k == 3 and not (strand is PLUS and rs is PLUS):
                    continue  # 130-200 CPU-s each: the other three strand combinations run in the thorough tier
                params = dict(layout_params(k))
                params.update(a=int, b=int, i=int, p=int)
                o = Obl("sub_overlapping_k%d_%s_rel%s" % (k, sname(strand), sname(rs)), sub_overlapping(k, strand, rs),
                        params, _overlap_pre(k, sorted_starts=(k >= 3)), budget=400 * (k - 1), cost=[0, 0, 8, 190, 1500][k],
                        desc="overlapping/nested blocks: relative_interval_to_parent_location covers exactly the multiset of "
                             "bases the point-wise map yields for [a,b); strand composed; length b-a",
                        bounds="k=%d blocks with signed gaps, unbounded ints" % k,
                        examples=[dict(ex2, a=1, b=9, i=3, p=4)])
                if k == 3:
                    cubes = split_cubes(o, {"g1neg": lambda **kw: kw["g1"] < 0, "g2neg": lambda **kw: kw["g2"] < 0,
                                            "aeqb": lambda **kw: kw["a"] + 1 >= kw["b"]})
                    if tier == "quick":
                        # quick keeps the mixed cubes (one overlap + one gap); chains of overlaps (180 CPU-s) and the
                        # non-overlapping cube (already covered by sub_k3_*) run in the thorough tier
                        cubes = [c for c in cubes if ("_g1neg_not-g2neg" in c.name or "not-g1neg_g2neg" in c.name)]
                    out.extend(cubes)
                elif k > 3:
                    out.extend(split_cubes(o, {"g1neg": lambda **kw: kw["g1"] < 0, "g2neg": lambda **kw: kw["g2"] < 0,
                                               "g3neg": lambda **kw: kw["g3"] < 0, "aeqb": lambda **kw: kw["a"] + 1 >= kw["b"]}))
                else:
                    out.append(o)
                if k == 2:
                    out.append(Obl("sub_order_signed_k2_%s_rel%s" % (sname(strand), sname(rs)),
                                   sub_overlapping(k, strand, rs, ordered_claim=True), params, _overlap_pre(k), budget=300, cost=8,
                                   desc="signed-gap 2-block layouts: the i-th base of the converted sub-interval equals the point-wise map's "
                                        "(order claim; overlapping layouts are known finding F12)",
                                   bounds="k=2 blocks with signed gaps, unbounded ints", examples=[dict(s0=5, l0=6, l1=4, g1=2, a=1, b=9, i=3, p=4)]))
    if True:
        for strand in (PLUS, MINUS):
            for k in (2, 3):
                params = dict(layout_params(k))
                params["p"] = int

                def pre(k=k, **kw):
                    if not kw["s0"] >= 0:
                        return False
                    for i in range(k):
                        if not kw["l%d" % i] >= 0:
                            return False
                    # signed gaps: block i may start anywhere at or after 0 (overlaps and nesting allowed)
                    bl = layout_blocks(k, kw)
                    for s, e in bl:
                        if not s >= 0:
                            return False
                    return True

                if tier == "thorough":
                    out.append(Obl("p2r_overlapping_k%d_%s" % (k, sname(strand)), p2r_overlapping(k, strand), params, pre,
                               budget=400, cost=30,
                               desc="overlapping/nested blocks: parent_to_relative_pos returns an index whose base is p; uncovered p refused",
                               bounds="k=%d blocks with signed gaps (overlap, nesting, any order), unbounded ints" % k,
                               examples=[dict(s0=5, l0=6, l1=4, g1=-3, p=9) if k == 2 else dict(s0=5, l0=6, l1=4, l2=3, g1=-3, g2=-2, p=9)]))
                if k == 2:
                    for how in ("reverse", "reset", "same"):
                        for warm in ((True,) if tier == "quick" else (True, False)):
                            fp = dict(params)
                            fp.pop("p", None)
                            fp.update(r=int, p=int)
                            out.append(Obl("flip_derived_%s_%s_k%d_%s" % (how, "warm" if warm else "cold", k, sname(strand)), flip_derived(k, strand, how, warm), fp, pre,
                                           budget=600, cost=40,
                                           desc="%s copy of a location with overlapping / nested / shared-start blocks, made %s point queries on the source: blocks, length "
                                                "and both point maps equal those of a location built afresh with the new strand" % (
                                                    {"reverse": "reverse_strand()", "reset": "reset_strand(opposite)", "same": "reset_strand(same)"}[how],
                                                    "AFTER" if warm else "before any"),
                                           bounds="k=2 blocks with signed gaps and lengths >= 0, unbounded ints",
                                           examples=[dict(s0=0, l0=5, l1=10, g1=-5, r=3, p=7), dict(s0=5, l0=6, l1=4, g1=-3, r=0, p=9)]))
                    sp = dict(params)
                    sp.pop("p", None)
                    sp.update(w=int, step=int, start=int)
                    out.append(Obl("scan_windows_overlapping_k%d_%s" % (k, sname(strand)), scan_windows_overlapping(k, strand), sp,
                                   lambda s0, l0, l1, g1, w, step, start: 0 <= s0 and s0 <= 1 and (l0 == 2 or l0 == 5 or l0 == 10) and (l1 == 3 or l1 == 4 or l1 == 12) and
                                   (g1 == -l0 or g1 == -2 or g1 == -1 or g1 == 0 or g1 == 3) and 2 <= w and w <= 3 and (step == 1 or step == 3) and 0 <= start and start <= 1
                                   and s0 + l0 + g1 >= 0 and start + w <= l0 + l1, budget=900, cost=90,
                                   desc="scan_windows on overlapping / nested / shared-start / abutting blocks: EVERY window has the requested length and strand, is exactly "
                                        "relative_interval_to_parent_location(start + i*step, + w) and holds the bases of that stretch; as many windows as fit",
                                   bounds="k=2 blocks: lengths {2,5,10} x {3,4,12}, second block starting at the first's start / 2 or 1 before its end / at its end / 3 after, "
                                          "window 2..3, step 1 or 3, start 0..1 (realised)",
                                   examples=[dict(s0=0, l0=10, l1=12, g1=-2, w=3, step=3, start=0), dict(s0=1, l0=5, l1=4, g1=-5, w=2, step=1, start=1)]))
                if k == 3:
                    for how in (("optimize",) if tier == "quick" else ("optimize", "sub")):
                        out.append(Obl("p2r_derived_%s_k%d_%s" % (how, k, sname(strand)), p2r_derived(k, strand, how), params, pre, budget=600, cost=40,
                                       desc="point maps of a DERIVED location (result of %s on an overlapping/nested layout with empty or adjacent blocks): "
                                            "parent_to_relative_pos returns an index whose base is p and is inverted by relative_to_parent_pos; uncovered p refused" % (
                                                "optimize_blocks()" if how == "optimize" else "relative_interval_to_parent_location(0, len)"),
                                       bounds="k=3 blocks with signed gaps and lengths >= 0, unbounded ints",
                                       examples=[dict(s0=0, l0=30, l1=3, l2=0, g1=-18, g2=5, p=20), dict(s0=5, l0=6, l1=4, l2=3, g1=-3, g2=0, p=9)]))
    return out
