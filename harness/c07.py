"""C07 — a chunk-relative view is the chromosome view restricted to the chunk."""
import harness.common  # noqa: F401
from inscripta.biocantor.exc import BioCantorException, InvalidPositionException
from inscripta.biocantor.gene.cds import CDSInterval
from inscripta.biocantor.gene.cds_frame import CDSFrame
from inscripta.biocantor.gene.feature import FeatureInterval
from inscripta.biocantor.gene.transcript import TranscriptInterval
from inscripta.biocantor.parent import SequenceType

from harness.cdsmodel import codon_strings, consistent_frames, ref_codon_positions, ref_translate
from harness.common import (
    AND, DEQ, IFF, ITE, MAX, MIN, MINUS, NOT, OR, PLUS, SUM, EmptyLocation, GENOME40, blocks_of, chrom_parent, chunk_parent, layout_blocks,
    layout_params, layout_pre, member, mult, sname, total_len,
)
from vlib.obl import Obl
from vlib.sym import concretize, untraced

META = dict(
    functions=["AbstractInterval.initialize_location / liftover_location_to_seq_chunk_parent / chromosome_location / chunk_relative_location / "
               "_chunk_relative_bounded_chromosome_location", "FeatureInterval / TranscriptInterval / CDSInterval constructors on chunk parents, to_dict",
               "CDSInterval.chunk_relative_codon_locations / chromosome_codon_locations / num_codons / chunk_relative_frames / extract_sequence / translate "
               "on chunk-built twins", "TranscriptInterval constructor: CDS dropped when sliced out", "GeneInterval / FeatureIntervalCollection on chunks"],
    bounds=dict(quick="features/transcripts with <=2 blocks, CDS with 1 exon (lengths 5..7) or 2 exons (3 length vectors) x start frames 0..2 "
                      "(consistent frames) and one frameshift vector, both strands; chunk of length 12 at a SYMBOLIC window start; first start and gaps symbolic",
                thorough="3-exon CDS, chunk lengths 9 and 12, more length vectors"),
    outside=">3 exons; chunk lengths other than stated (the chunk's sequence string must be concrete); minus-strand chunks beyond the stated legs (UTRs, "
            "chunk-relative accessors and conversions, sequence answers, position conversions; lift-over itself is C04)",
    stubs=["S1", "S2", "S3", "S4", "S5", "S6", "S11"],
    assumptions=["reading-frame model harness/cdsmodel.py", "twin construction: same interval built without parent / on the whole chromosome / on the chunk"],
)
L = 12


def _starts(lens, kw):
    starts, cur = [], kw["s0"]
    for i, n in enumerate(lens):
        if i > 0:
            cur = cur + lens[i - 1] + kw["g%d" % i]
        starts.append(cur)
    return starts


def _overlaps_window(starts, lens, w):
    return OR(*[AND(s < w + L, w < s + n) for s, n in zip(starts, lens)])


def codons_on_chunk(lens, strand, frames, realised=False):
    k = len(lens)

    def fn(**kw):
        if realised:
            names = sorted(kw)
            vals = concretize(*[kw[n] for n in names])
            kw = dict(zip(names, vals if isinstance(vals, list) else [vals]))
            with untraced():
                return bool(body(**kw))
        return body(**kw)

    def body(**kw):
        starts = _starts(lens, kw)
        ends = [s + n for s, n in zip(starts, lens)]
        w = kw["w"]
        fr = [CDSFrame(f) for f in frames]
        whole = CDSInterval(starts, ends, strand, fr, guid=41)
        chunk = CDSInterval(starts, ends, strand, fr, guid=41, parent_or_seq_chunk_parent=chunk_parent(w, L))
        exp_all = ref_codon_positions(starts, lens, strand, frames)
        # chromosome-level answers are unchanged by the chunk
        conds = [chunk.start == whole.start, chunk.end == whole.end, DEQ(chunk.to_dict(), whole.to_dict()), chunk.guid == whole.guid]
        wc = whole.chromosome_codon_locations
        cc = chunk.chromosome_codon_locations
        if len(wc) != len(cc) or len(wc) != len(exp_all) or chunk.num_codons != len(exp_all):
            return False
        for a, b, e in zip(wc, cc, exp_all):
            for i in range(3):
                conds.append(AND(a.relative_to_parent_pos(i) == e[i], b.relative_to_parent_pos(i) == e[i]))
        # chunk-relative codons, lifted back, are exactly the whole-chromosome codons fully inside the window
        try:
            rel = chunk.chunk_relative_codon_locations
        except (BioCantorException, ValueError):
            # listing may be refused only when NO complete codon lies inside the window (as for codon-less CDSs in C05)
            any_inside = OR(*[AND(*[AND(w <= p, p < w + L) for p in e]) for e in exp_all]) if exp_all else False
            return AND(NOT(any_inside), *conds)
        got = []
        for c in rel:
            if len(c) != 3:
                return False
            up = c.lift_over_to_first_ancestor_of_type(SequenceType.CHROMOSOME)
            got.append([up.relative_to_parent_pos(i) for i in range(3)])
            # chunk coordinates are offsets from the window start
            for i in range(3):
                conds.append(c.relative_to_parent_pos(i) + w == up.relative_to_parent_pos(i))
        for e in exp_all:
            inside = AND(*[AND(w <= p, p < w + L) for p in e])
            present = OR(*[AND(g[0] == e[0], g[1] == e[1], g[2] == e[2]) for g in got]) if got else False
            conds.append(IFF(inside, present))
        for g in got:
            conds.append(OR(*[AND(g[0] == e[0], g[1] == e[1], g[2] == e[2]) for e in exp_all]) if exp_all else False)
        conds.append(len(got) == chunk.num_chunk_relative_codons)
        return AND(*conds)

    return fn


def window_codons_on_chunk(lens, strand, frames, expand, realised=False):
    """codon-window restriction (by chromosome start/end) on a chunk-built CDS: the chunk-relative scan, lifted back, lists exactly the model codons
    fully inside the window AND the chunk - in the CDS's frame, whatever the window and the chunk cut off the 5' end"""
    k = len(lens)

    def fn(**kw):
        if realised:
            names = sorted(kw)
            vals = concretize(*[kw[n] for n in names])
            kw = dict(zip(names, vals if isinstance(vals, list) else [vals]))
            kw["we"] = kw["ws"] + kw.pop("wl")
            with untraced():
                return bool(body(**kw))
        return body(**kw)

    def body(**kw):
        starts = _starts(lens, kw)
        ends = [s + n for s, n in zip(starts, lens)]
        w, ws, we = kw["w"], kw["ws"], kw["we"]
        fr = [CDSFrame(f) for f in frames]
        chunk = CDSInterval(starts, ends, strand, fr, guid=45, parent_or_seq_chunk_parent=chunk_parent(w, L))
        exp_all = ref_codon_positions(starts, lens, strand, frames)
        inside = [AND(*[AND(w <= p, p < w + L, ws <= p, p < we) for p in e]) for e in exp_all]
        try:
            rel = list(chunk.scan_chunk_relative_codon_locations(ws, we, expand_window_to_partial_codons=expand))
        except (BioCantorException, ValueError):
            # refusal is acceptable only when no complete codon lies inside window and chunk
            return NOT(OR(*inside)) if inside else True
        got, conds = [], []
        for c in rel:
            if len(c) != 3:
                return False
            up = c.lift_over_to_first_ancestor_of_type(SequenceType.CHROMOSOME)
            got.append([up.relative_to_parent_pos(i) for i in range(3)])
            for i in range(3):
                conds.append(c.relative_to_parent_pos(i) + w == up.relative_to_parent_pos(i))
        for e, ins in zip(exp_all, inside):
            present = OR(*[AND(g[0] == e[0], g[1] == e[1], g[2] == e[2]) for g in got]) if got else False
            conds.append(OR(NOT(ins), present) if expand else IFF(ins, present))
        for g in got:
            # soundness: every listed codon is a model codon lying inside the chunk
            conds.append(OR(*[AND(g[0] == e[0], g[1] == e[1], g[2] == e[2], *[AND(w <= p, p < w + L) for p in e]) for e in exp_all]) if exp_all else False)
        for a, b in zip(got, got[1:]):
            conds.append(a[0] < b[0] if strand is PLUS else a[0] > b[0])
        # the same window asked in CHROMOSOME coordinates is a chromosome-level answer: the chunk-built CDS lists what its parent-less twin lists (or refuses alike)
        if not realised:
            return AND(*conds) if conds else True
        whole = CDSInterval(starts, ends, strand, fr, guid=45)

        def chrom_scan(o):
            try:
                return [[loc.relative_to_parent_pos(i) for i in range(3)] for loc in o.scan_chromosome_codon_locations(ws, we, expand_window_to_partial_codons=expand)]
            except (BioCantorException, ValueError) as e:  # noqa
                return type(e).__name__

        ca, cb = chrom_scan(chunk), chrom_scan(whole)
        if isinstance(ca, str) or isinstance(cb, str):
            conds.append(isinstance(ca, str) and isinstance(cb, str))
        else:
            conds.append(DEQ(ca, cb))
        return AND(*conds) if conds else True

    return fn


def location_on_chunk(kind, k, strand):
    def fn(**kw):
        bl = layout_blocks(k, kw)
        w, p = kw["w"], kw["p"]
        st, en = [b[0] for b in bl], [b[1] for b in bl]
        if kind == "feature":
            whole = FeatureInterval(st, en, strand, guid=42, feature_name="f")
            chunk = FeatureInterval(st, en, strand, guid=42, feature_name="f", parent_or_seq_chunk_parent=chunk_parent(w, L))
        else:
            whole = TranscriptInterval(st, en, strand, guid=42, transcript_id="t")
            chunk = TranscriptInterval(st, en, strand, guid=42, transcript_id="t", parent_or_seq_chunk_parent=chunk_parent(w, L))
        conds = [chunk.start == whole.start, chunk.end == whole.end, DEQ(chunk.to_dict(), whole.to_dict()),
                 len(chunk) == len(whole), chunk.strand is strand]
        cb = blocks_of(chunk.chromosome_location)
        conds.append(DEQ(cb, bl))
        rel = chunk.chunk_relative_location
        inside_any = OR(*[AND(s < w + L, w < e) for s, e in bl])
        if rel is EmptyLocation():
            return AND(NOT(inside_any), *conds)
        up = rel.lift_over_to_first_ancestor_of_type(SequenceType.CHROMOSOME)
        want = AND(member(p, bl), w <= p, p < w + L)
        conds += [inside_any, mult(p, blocks_of(up)) == ITE(want, 1, 0), up.strand is strand,
                  mult(p - w, blocks_of(rel)) == ITE(want, 1, 0), chunk.is_chunk_relative, NOT(whole.is_chunk_relative)]
        return AND(*conds)

    return fn


def blocks_on_chunk(kind, k, strand):
    """block structure of the chunk-relative view: the chromosome blocks clipped to the window, block for block (blocks that touch each other, the way a
    frameshift is modelled, stay separate blocks), whatever the window cuts"""

    def fn(**kw):
        bl = layout_blocks(k, kw)
        w = kw["w"]
        st, en = [b[0] for b in bl], [b[1] for b in bl]
        par = chunk_parent(w, L)
        if kind == "feature":
            chunk = FeatureInterval(st, en, strand, guid=44, parent_or_seq_chunk_parent=par)
        elif kind == "transcript":
            chunk = TranscriptInterval(st, en, strand, guid=44, parent_or_seq_chunk_parent=par)
        else:
            chunk = CDSInterval(st, en, strand, [CDSFrame.ZERO] * k, guid=44, parent_or_seq_chunk_parent=par)
        inside = [AND(s < w + L, w < e) for s, e in bl]
        rel = chunk.chunk_relative_location
        if rel is EmptyLocation():
            return NOT(OR(*inside))
        rb = blocks_of(rel)
        conds = [len(rb) == SUM([ITE(c, 1, 0) for c in inside]), chunk.num_chunk_relative_blocks == len(rb), DEQ(blocks_of(chunk.chromosome_location), bl)]
        for (s, e), c in zip(bl, inside):
            cs, ce = MAX([s, w]) - w, MIN([e, w + L]) - w
            conds.append(IFF(c, OR(*[AND(r[0] == cs, r[1] == ce) for r in rb])))
        for a, b in zip(rb, rb[1:]):
            conds.append(a[0] <= b[0])
        return AND(*conds)

    return fn


def utr_on_chunk(shape, strand, chunk_strand=PLUS):
    """UTRs of a coding transcript built on a chunk: exactly the whole-chromosome UTR bases that lie inside the window (chunk coordinates), whatever the
    window cuts off the transcript or the CDS; shape = which exons hold the CDS start / end. Realised leg: the solver enumerates the layouts, the body
    compares every position natively."""

    def fn(**kw):
        names = sorted(kw)
        vals = concretize(*[kw[n] for n in names])
        kw = dict(zip(names, vals if isinstance(vals, list) else [vals]))
        with untraced():
            return bool(body(**kw))

    def body(s0, l0, g1, l1, ca, cb, w):
        ex = [(s0, s0 + l0), (s0 + l0 + g1, s0 + l0 + g1 + l1)]
        # CDS from ca bases into its first exon to cb bases before the end of its last exon
        first, last = {"e0": (0, 0), "e1": (1, 1), "both": (0, 1)}[shape]
        cs, ce = ex[first][0] + ca, ex[last][1] - cb
        cds = [(cs, ce)] if first == last else [(cs, ex[0][1]), (ex[1][0], ce)]
        args = ([e[0] for e in ex], [e[1] for e in ex], strand, [c[0] for c in cds], [c[1] for c in cds], [CDSFrame.ZERO] * len(cds))
        chunk = TranscriptInterval(*args, guid=46, parent_or_seq_chunk_parent=chunk_parent(w, L, strand=chunk_strand))
        exon_pos = [q for a, b in ex for q in range(a, b) if w <= q < w + L]
        want5 = [q for q in exon_pos if (q < cs if strand is PLUS else q >= ce)]
        want3 = [q for q in exon_pos if (q >= ce if strand is PLUS else q < cs)]
        # chunk coordinate of a chromosome position, and the transcript's strand as seen from the chunk
        cpos = (lambda q: q - w) if chunk_strand is PLUS else (lambda q: w + L - 1 - q)
        rel_strand = strand if chunk_strand is PLUS else strand.reverse()
        for got, want in ((chunk.get_5p_interval(), want5), (chunk.get_3p_interval(), want3)):
            if got is EmptyLocation() or got.is_empty:
                if want:
                    return False
                continue
            if sorted(q for a, b in blocks_of(got) for q in range(a, b)) != sorted(cpos(q) for q in want) or got.strand is not rel_strand:
                return False
            # a chunk-relative answer: it lives on the chunk and lifts back to the chromosome
            up = got.lift_over_to_first_ancestor_of_type(SequenceType.CHROMOSOME)
            if sorted(q for a, b in blocks_of(up) for q in range(a, b)) != want or up.strand is not strand:
                return False
            exp = "".join(GENOME40[c] for c in sorted(cpos(q) for q in want))
            if rel_strand is MINUS:
                exp = "".join({"A": "T", "C": "G", "G": "C", "T": "A"}[c] for c in reversed(exp))
            if str(got.extract_sequence()) != exp:
                return False
        return True

    return fn


def utr_pre(shape):
    def pre(s0, l0, g1, l1, ca, cb, w):
        if not (100 <= s0 and s0 <= 101 and 4 <= l0 and l0 <= 6 and 2 <= g1 and g1 <= 3 and 4 <= l1 and l1 <= 6 and 0 <= ca and ca <= 2 and 0 <= cb and cb <= 2
                and 94 <= w and w <= 116):
            return False
        if shape == "e0":
            return ca + cb < l0
        if shape == "e1":
            return ca + cb < l1
        return True

    return pre


def chunk_accessors(strand, chunk_strand=PLUS):
    """every chunk-relative accessor of a coding transcript whose chunk may cut it anywhere agrees with the chromosome view restricted to the window: exon and
    CDS blocks, starts / ends / sizes, span, gaps = introns, position conversions along the visible part, and the alternative constructor
    from_chunk_relative_location rebuilds the visible part. Realised leg."""

    def fn(**kw):
        names = sorted(kw)
        vals = concretize(*[kw[n] for n in names])
        kw = dict(zip(names, vals if isinstance(vals, list) else [vals]))
        with untraced():
            return bool(body(**kw))

    def body(s0, l0, g1, l1, g2, l2, ca, cb, w, Lc):
        ex = [(s0, s0 + l0), (s0 + l0 + g1, s0 + l0 + g1 + l1), (s0 + l0 + g1 + l1 + g2, s0 + l0 + g1 + l1 + g2 + l2)]
        cds = [(ex[0][0] + ca, ex[0][1]), ex[1], (ex[2][0], ex[2][1] - cb)]
        frames = [CDSFrame(f) for f in consistent_frames([c[1] - c[0] for c in cds], strand, 0)]
        genome = GENOME40 * 2
        t = TranscriptInterval([e[0] for e in ex], [e[1] for e in ex], strand, [c[0] for c in cds], [c[1] for c in cds], frames, guid=47,
                               parent_or_seq_chunk_parent=chunk_parent(w, Lc, seq=genome[w:w + Lc], strand=chunk_strand))
        if chunk_strand is PLUS:
            clip = lambda bl: [(max(a, w) - w, min(b, w + Lc) - w) for a, b in bl if max(a, w) < min(b, w + Lc)]  # noqa: E731
        else:
            clip = lambda bl: sorted((w + Lc - min(b, w + Lc), w + Lc - max(a, w)) for a, b in bl if max(a, w) < min(b, w + Lc))  # noqa: E731
        rel_strand = strand if chunk_strand is PLUS else strand.reverse()
        cex, ccds = clip(ex), clip(cds)

        def bl(loc):
            return [] if (loc is EmptyLocation() or loc.is_empty) else [(b.start, b.end) for b in loc.blocks]

        ok = bl(t.chunk_relative_location) == cex and bl(t.cds_chunk_relative_location) == ccds and [(b.start, b.end) for b in t.cds_location.blocks] == cds
        ok = ok and t.cds_size == sum(b - a for a, b in cds) and t.chunk_relative_cds_size == sum(b - a for a, b in ccds)
        if ccds:
            ok = ok and t.chunk_relative_cds_start == ccds[0][0] and t.chunk_relative_cds_end == ccds[-1][1]
            ok = ok and [(b.start, b.end) for b in t.chunk_relative_cds_blocks] == ccds
        if not cex:
            return ok
        ok = ok and t.chunk_relative_start == cex[0][0] and t.chunk_relative_end == cex[-1][1] and t.chunk_relative_size == sum(b - a for a, b in cex)
        ok = ok and (t.chunk_relative_span.start, t.chunk_relative_span.end) == (cex[0][0], cex[-1][1]) and t.chunk_relative_strand is rel_strand
        gaps = [(a[1], b[0]) for a, b in zip(cex, cex[1:])]
        ok = ok and bl(t.chunk_relative_gaps_location) == gaps and bl(t.chunk_relative_intron_location) == gaps
        ok = ok and [(b.start, b.end) for b in t.relative_blocks] == cex and t.num_chunk_relative_blocks == len(cex)
        # conversions between positions along the VISIBLE part of the transcript and chunk coordinates
        order = cex if rel_strand is PLUS else list(reversed(cex))
        walk = [q for a, b in order for q in (range(a, b) if rel_strand is PLUS else range(b - 1, a - 1, -1))]
        for i, q in enumerate(walk):
            ok = ok and t.transcript_pos_to_chunk_relative(i) == q and t.chunk_relative_pos_to_transcript(q) == i
        # the same lookups ALTERNATING with chromosome-coordinate lookups on the same object (positions of the FULL transcript): neither coordinate system's
        # answer may depend on what was asked in the other one just before
        full = TranscriptInterval([e[0] for e in ex], [e[1] for e in ex], strand, guid=50)
        to_chrom = (lambda q: q + w) if chunk_strand is PLUS else (lambda q: w + Lc - 1 - q)
        for i, q in enumerate(walk):
            c = to_chrom(q)
            ok = ok and t.sequence_pos_to_transcript(c) == full.sequence_pos_to_transcript(c) and t.chunk_relative_pos_to_transcript(q) == i
            ok = ok and t.sequence_pos_to_transcript(to_chrom(walk[-1 - i])) == full.sequence_pos_to_transcript(to_chrom(walk[-1 - i]))
        for bad in (-1, len(walk)):
            try:
                t.transcript_pos_to_chunk_relative(bad)
                ok = False
            except InvalidPositionException:
                pass
        if len(walk) >= 2:
            got = t.transcript_interval_to_chunk_relative(1, len(walk), PLUS)
            ok = ok and sorted(q for a, b in bl(got) for q in range(a, b)) == sorted(walk[1:])
            back = t.chunk_relative_interval_to_transcript(cex[0][0], cex[-1][1], rel_strand)
            ok = ok and sorted(q for a, b in bl(back) for q in range(a, b)) == list(range(len(walk)))
        # the CDS-level and feature-level wrappers of the same conversions, along the visible part of the CDS / of a feature with the same blocks
        if ccds:
            corder = ccds if rel_strand is PLUS else list(reversed(ccds))
            cwalk = [q for a, b in corder for q in (range(a, b) if rel_strand is PLUS else range(b - 1, a - 1, -1))]
            for i, q in enumerate(cwalk):
                ok = ok and t.cds_pos_to_chunk_relative(i) == q and t.chunk_relative_pos_to_cds(q) == i and t.cds.cds_pos_to_chunk_relative(i) == q
            got = t.cds_interval_to_chunk_relative(0, len(cwalk), PLUS)
            ok = ok and sorted(q for a, b in bl(got) for q in range(a, b)) == sorted(cwalk)
            back = t.chunk_relative_interval_to_cds(ccds[0][0], ccds[-1][1], rel_strand)
            ok = ok and sorted(q for a, b in bl(back) for q in range(a, b)) == list(range(len(cwalk)))
            for q in walk:
                if q not in cwalk:
                    try:
                        t.chunk_relative_pos_to_cds(q)
                        ok = False
                    except InvalidPositionException:
                        pass
        f = FeatureInterval([e[0] for e in ex], [e[1] for e in ex], strand, guid=49,
                            parent_or_seq_chunk_parent=chunk_parent(w, Lc, seq=genome[w:w + Lc], strand=chunk_strand))
        for i, q in enumerate(walk):
            ok = ok and f.feature_pos_to_chunk_relative(i) == q and f.chunk_relative_pos_to_feature(q) == i
        if len(walk) >= 2:
            ok = ok and sorted(q for a, b in bl(f.feature_interval_to_chunk_relative(0, len(walk) - 1, PLUS)) for q in range(a, b)) == sorted(walk[:-1])
            ok = ok and sorted(q for a, b in bl(f.chunk_relative_interval_to_feature(cex[0][0], cex[-1][1], rel_strand)) for q in range(a, b)) == list(range(len(walk)))
        ok = ok and [(b.start, b.end) for b in f.chunk_relative_blocks] == cex
        # the alternative constructor rebuilds the visible part from its chunk-relative locations
        if chunk_strand is PLUS and not any(a[1] == b[0] for a, b in zip(cex, cex[1:])):
            t2 = TranscriptInterval.from_chunk_relative_location(t.chunk_relative_location, cds=t.cds if ccds else None, guid=48)
            ok = ok and [(b.start, b.end) for b in t2.chromosome_location.blocks] == [(a + w, b + w) for a, b in cex] and bl(t2.chunk_relative_location) == cex
            ok = ok and str(t2.get_spliced_sequence()) == str(t.get_spliced_sequence())
            if ccds:
                ok = ok and [(b.start, b.end) for b in t2.cds.chromosome_location.blocks] == [(a + w, b + w) for a, b in ccds]
        return ok

    return fn


def cds_sliced_out(strand):
    """transcript 2 exons, CDS inside exon `which`; the window may miss the CDS, the transcript, or neither"""

    def fn(s0, l0, g1, l1, co, cl, w, p):
        ex = [(s0, s0 + l0), (s0 + l0 + g1, s0 + l0 + g1 + l1)]
        cds = [(ex[1][0] + co, ex[1][0] + co + cl)]
        whole = TranscriptInterval([e[0] for e in ex], [e[1] for e in ex], strand, [cds[0][0]], [cds[0][1]], [CDSFrame.ZERO], guid=43)
        chunk = TranscriptInterval([e[0] for e in ex], [e[1] for e in ex], strand, [cds[0][0]], [cds[0][1]], [CDSFrame.ZERO], guid=43,
                                   parent_or_seq_chunk_parent=chunk_parent(w, L))
        conds = [chunk.start == whole.start, chunk.end == whole.end, chunk.is_coding, whole.is_coding,
                 DEQ(chunk.to_dict(), whole.to_dict()), chunk.cds_start == cds[0][0], chunk.cds_end == cds[0][1]]
        cds_inside = AND(cds[0][0] < w + L, w < cds[0][1])
        crel = chunk.cds.chunk_relative_location
        if crel is EmptyLocation():
            conds.append(NOT(cds_inside))
        else:
            up = crel.lift_over_to_first_ancestor_of_type(SequenceType.CHROMOSOME)
            want = AND(cds[0][0] <= p, p < cds[0][1], w <= p, p < w + L)
            conds += [cds_inside, mult(p, blocks_of(up)) == ITE(want, 1, 0)]
        trel = chunk.chunk_relative_location
        tx_inside = OR(*[AND(s < w + L, w < e) for s, e in ex])
        conds.append(IFF(trel is EmptyLocation(), NOT(tx_inside)))
        return AND(*conds)

    return fn


GEN = GENOME40


def sequences_on_chunk(lens, strand, frames, chunk_strand=PLUS):
    """realised: window start, first start, gaps; chunk sequence = the genome's own stretch (reverse-complemented for a chunk placed on the minus strand:
    every answer below is in transcript orientation and therefore the same on either chunk strand)"""
    k = len(lens)

    def _cp(w):
        st = GEN[w: w + L]
        if chunk_strand is MINUS:
            st = "".join({"A": "T", "C": "G", "G": "C", "T": "A"}[c] for c in reversed(st))
        return chunk_parent(w, L, seq=st, strand=chunk_strand)

    def fn(**kw):
        names = sorted(kw)
        vals = concretize(*[kw[n] for n in names])
        kw = dict(zip(names, vals if isinstance(vals, list) else [vals]))
        with untraced():
            starts = _starts(lens, kw)
            ends = [s + n for s, n in zip(starts, lens)]
            w = kw["w"]
            fr = [CDSFrame(f) for f in frames]
            par = _cp(w)
            whole = CDSInterval(starts, ends, strand, fr, guid=44, parent_or_seq_chunk_parent=chrom_parent(GEN))
            chunk = CDSInterval(starts, ends, strand, fr, guid=44, parent_or_seq_chunk_parent=par)
            exp_all = ref_codon_positions(starts, lens, strand, frames)
            inside = [c for c in exp_all if all(w <= p < w + L for p in c)]
            want = "".join(codon_strings(inside, GEN, strand))
            whole_seq = "".join(codon_strings(exp_all, GEN, strand))
            if exp_all and str(whole.extract_sequence()) != whole_seq:
                return False
            if not any(s < w + L and w < s + n for s, n in zip(starts, lens)):
                return chunk.chunk_relative_location is EmptyLocation()
            try:
                got = str(chunk.extract_sequence())
            except (ValueError, BioCantorException):
                return len(inside) == 0
            if got != want:
                return False
            if inside:
                cstr = codon_strings(inside, GEN, strand)
                if str(chunk.translate()) != ref_translate(cstr, 0, False):
                    return False
                # codon path after the tuple was listed
                twin = CDSInterval(starts, ends, strand, fr, guid=44, parent_or_seq_chunk_parent=_cp(w))
                cl = twin.chunk_relative_codon_locations
                if "".join(str(c.extract_sequence()) for c in cl) != want or str(twin.extract_sequence()) != want:
                    return False
                if twin.num_codons != len(exp_all):
                    return False
                # predicates asked of the chunk view describe the codons the chunk holds (the translation they are documented in terms of)
                prot = ref_translate(cstr, 0, False)
                if chunk.has_in_frame_stop != ("*" in prot[:-1]) or chunk.has_valid_stop != (cstr[-1] in ("TAA", "TAG", "TGA")) or \
                        chunk.has_canonical_start_codon != (cstr[0] == "ATG"):
                    return False
                if [str(c) for c in chunk.scan_codons()] != cstr:
                    return False
            # spliced sequence of the chunk-built feature = in-window stretch of the whole one
            f_whole = FeatureInterval(starts, ends, strand, guid=45, parent_or_seq_chunk_parent=chrom_parent(GEN))
            f_chunk = FeatureInterval(starts, ends, strand, guid=45, parent_or_seq_chunk_parent=par)
            pos = [f_whole.feature_pos_to_sequence(i) for i in range(len(f_whole))]
            full = str(f_whole.get_spliced_sequence())
            sub = "".join(ch for ch, p in zip(full, pos) if w <= p < w + L)
            return str(f_chunk.get_spliced_sequence()) == sub

    return fn


CONVERSIONS = ("sequence_pos_to_transcript", "sequence_pos_to_cds", "cds_pos_to_sequence", "cds_pos_to_transcript", "transcript_pos_to_cds",
               "transcript_pos_to_sequence")


def conversions_on_chunk(strand, chunk_strand=PLUS):
    """coordinate conversions are chromosome-level answers: a coding transcript built on a chunk (window cutting it anywhere) converts every
    position exactly like its parent-less twin (same value or same refusal). Realised: the solver closes the offset space, positions are looped natively"""

    def outcome(f, p):
        try:
            return f(p)
        except (BioCantorException, ValueError) as e:
            return type(e).__name__

    def fn(s0, w, co, ce):
        s0, w, co, ce = concretize(s0, w, co, ce)
        with untraced():
            l0, g1, l1 = 5, 3, 6
            ex = [(s0, s0 + l0), (s0 + l0 + g1, s0 + l0 + g1 + l1)]
            cds = [(ex[0][0] + co, ex[0][1]), (ex[1][0], ex[1][0] + ce)]
            mk = lambda par: TranscriptInterval([e[0] for e in ex], [e[1] for e in ex], strand, [c[0] for c in cds], [c[1] for c in cds],  # noqa: E731
                                                [CDSFrame.ZERO, CDSFrame.ZERO], guid=43, parent_or_seq_chunk_parent=par)
            whole, chunk = mk(None), mk(chunk_parent(w, L, strand=chunk_strand))
            for p in list(range(0, l0 + l1 + 2)) + list(range(s0 - 1, ex[1][1] + 2)):
                for name in CONVERSIONS:
                    if outcome(getattr(chunk, name), p) != outcome(getattr(whole, name), p):
                        return False
                if outcome(chunk.cds.sequence_pos_to_amino_acid, p) != outcome(whole.cds.sequence_pos_to_amino_acid, p):
                    return False
            return True

    return fn


def gene_on_chunk(strand):
    from inscripta.biocantor.gene.feature import FeatureIntervalCollection
    from inscripta.biocantor.gene.gene import GeneInterval

    def fn(s0, l0, g1, l1, w):
        par = chunk_parent(w, L)
        t1 = TranscriptInterval([s0], [s0 + l0], strand, guid=46)
        t2 = TranscriptInterval([s0 + l0 + g1], [s0 + l0 + g1 + l1], strand, guid=47)
        gw = GeneInterval([t1, t2], guid=48)
        gc = GeneInterval([TranscriptInterval([s0], [s0 + l0], strand, guid=46, parent_or_seq_chunk_parent=par),
                           TranscriptInterval([s0 + l0 + g1], [s0 + l0 + g1 + l1], strand, guid=47, parent_or_seq_chunk_parent=par)],
                          guid=48, parent_or_seq_chunk_parent=par)
        f1 = FeatureInterval([s0], [s0 + l0], strand, guid=49, parent_or_seq_chunk_parent=par)
        fc = FeatureIntervalCollection([f1], guid=50, parent_or_seq_chunk_parent=par)
        conds = [gc.start == gw.start, gc.end == gw.end, DEQ(gc.to_dict(), gw.to_dict()), fc.start == s0, fc.end == s0 + l0]
        # which member is primary is a chromosome-level answer: the longer transcript (the earlier one on a tie), whatever part of it the chunk holds
        conds.append(gc.get_primary_transcript().guid == gw.get_primary_transcript().guid)
        conds.append(gw.get_primary_transcript().guid == ITE(l1 > l0, 47, 46))
        f2 = FeatureInterval([s0 + l0 + g1], [s0 + l0 + g1 + l1], strand, guid=51, parent_or_seq_chunk_parent=par)
        fc2 = FeatureIntervalCollection([FeatureInterval([s0], [s0 + l0], strand, guid=49, parent_or_seq_chunk_parent=par), f2], guid=52, parent_or_seq_chunk_parent=par)
        conds.append(fc2.get_primary_feature().guid == ITE(l1 > l0, 51, 49))
        rel = gc.chunk_relative_location
        inside = AND(s0 < w + L, w < s0 + l0 + g1 + l1)
        if rel is EmptyLocation():
            conds.append(NOT(inside))
        else:
            lo = ITE(s0 > w, s0, w)
            hi = ITE(s0 + l0 + g1 + l1 < w + L, s0 + l0 + g1 + l1, w + L)
            conds += [inside, rel.start == lo - w, rel.end == hi - w]
        return AND(*conds)

    return fn


def isoforms_on_chunk(strand):
    """two CDSs of one locus (same outer coordinates, same second exon, first exons of different length) on the same chunk whose window cuts the 5' part
    away, asked one after the other in either order: each one's chunk-relative codons are ITS OWN whole-chromosome codons inside the window (nothing is shared
    between CDSs through a table keyed on spans)"""

    def codons_inside(starts, lens, frames, w, Lc):
        return [c for c in ref_codon_positions(starts, lens, strand, frames) if all(w <= p < w + Lc for p in c)]

    def fn(a1, a2, f0, w, first):
        a1, a2, f0, w, first = concretize(a1, a2, f0, w, first)
        with untraced():
            Lc = 24
            s, t, e = 2, 16, 36  # outer start, second exon start, outer end: [s, s+a) + [t, e) on plus; mirrored on minus (short exon at the 5' end)
            isos = []
            for a in (a1, a2):
                if strand is PLUS:
                    starts, ends = [s, t], [s + a, e]
                else:
                    starts, ends = [s, e - a], [s + (e - t), e]
                lens = [ends[0] - starts[0], ends[1] - starts[1]]
                isos.append((starts, ends, lens, consistent_frames(lens, strand, f0)))
            order = [0, 1] if first == 0 else [1, 0]
            par = lambda: chunk_parent(w, Lc, seq=GEN[w: w + Lc])  # noqa: E731
            for k in order + order:
                starts, ends, lens, frames = isos[k]
                cds = CDSInterval(starts, ends, strand, [CDSFrame(f) for f in frames], parent_or_seq_chunk_parent=par())
                try:
                    rel = cds.chunk_relative_codon_locations
                except (BioCantorException, ValueError):
                    rel = None
                exp = codons_inside(starts, lens, frames, w, Lc)
                if rel is None:
                    if exp:
                        return False
                    continue
                got = sorted(tuple(c.lift_over_to_first_ancestor_of_type(SequenceType.CHROMOSOME).relative_to_parent_pos(i) for i in range(3)) for c in rel)
                if got != sorted(tuple(c) for c in exp):
                    return False
            return True

    return fn


def identifiers_fn(kind, strand):
    """computed identifiers (REAL digest): the same object built without parent, on the whole chromosome and on a chunk has ONE identifier"""
    from inscripta.biocantor.gene.feature import FeatureIntervalCollection
    from inscripta.biocantor.gene.gene import GeneInterval
    from inscripta.biocantor.gene.variants import VariantInterval, VariantIntervalCollection

    def build(kind, s0, par):
        ex = [(s0, s0 + 6), (s0 + 9, s0 + 15)]
        if kind == "feature":
            return FeatureInterval([e[0] for e in ex], [e[1] for e in ex], strand, feature_name="f", qualifiers={"q": ["v"]}, parent_or_seq_chunk_parent=par())
        if kind == "transcript":
            return TranscriptInterval([e[0] for e in ex], [e[1] for e in ex], strand, [s0 + 2, s0 + 9], [s0 + 6, s0 + 13], [CDSFrame.ONE, CDSFrame.TWO],
                                      transcript_id="t", parent_or_seq_chunk_parent=par())
        if kind == "cds":
            return CDSInterval([s0 + 2, s0 + 9], [s0 + 6, s0 + 13], strand, [CDSFrame.ONE, CDSFrame.TWO], parent_or_seq_chunk_parent=par())
        if kind == "gene":
            return GeneInterval([build("transcript", s0, par), TranscriptInterval([s0 + 1], [s0 + 5], strand, transcript_id="u", parent_or_seq_chunk_parent=par())],
                                gene_id="g", parent_or_seq_chunk_parent=par())
        if kind == "fcoll":
            return FeatureIntervalCollection([build("feature", s0, par)], feature_collection_id="fc", parent_or_seq_chunk_parent=par())
        v = VariantInterval(s0 + 3, s0 + 4, "A", "SNV", parent_or_seq_chunk_parent=par())
        if kind == "variant":
            return v
        return VariantIntervalCollection([v, VariantInterval(s0 + 8, s0 + 10, "", "deletion", parent_or_seq_chunk_parent=par())], variant_collection_id="vc",
                                         parent_or_seq_chunk_parent=par())

    def fn(s0, w):
        s0, w = concretize(s0, w)
        with untraced():
            a = build(kind, s0, lambda: None)
            b = build(kind, s0, lambda: chrom_parent(GEN))
            c = build(kind, s0, lambda: chunk_parent(w, 24, seq=GEN[w: w + 24]))
            ids = lambda o: [str(o.guid)] + [str(x.guid) for x in (o.iter_children() if hasattr(o, "iter_children") else [])]  # noqa: E731
            return ids(a) == ids(b) == ids(c) and a.to_dict() == c.to_dict()

    return fn


def obligations(tier):
    out = []
    quick = tier == "quick"
    for kind in ("feature", "transcript", "cds", "gene", "fcoll", "variant", "vcoll"):
        for strand in ((PLUS,) if quick else (PLUS, MINUS)):
            out.append(Obl("identifier_real_digest_%s_%s" % (kind, sname(strand)), identifiers_fn(kind, strand), dict(s0=int, w=int),
                           lambda s0, w: 0 <= w and w <= 4 and w <= s0 and s0 <= w + 9, budget=200, cost=10, consts=dict(),
                           desc="computed identifier (real MD5 digest) and dictionary form of a %s are the same whether it is built without parent, on the whole "
                                "chromosome or on a sequence chunk (window start 0..4, object anywhere inside the window)" % kind,
                           bounds="window start 0..4 x object offset 0..9 on a 40-nt genome (realised)", examples=[dict(s0=3, w=0), dict(s0=5, w=2)]))
    for strand in (PLUS, MINUS):
        out.append(Obl("isoform_cds_on_chunk_%s" % sname(strand), isoforms_on_chunk(strand), dict(a1=int, a2=int, f0=int, w=int, first=int),
                       lambda a1, a2, f0, w, first: 6 <= a1 and a1 <= 10 and 6 <= a2 and a2 <= 10 and 0 <= f0 and f0 <= 2 and 9 <= w and w <= 14 and 0 <= first and first <= 1,
                       budget=600, cost=60, consts=dict(),
                       desc="two CDS isoforms with the same outer coordinates but first exons of different length on one chunk (window cutting the 5' exon or the "
                            "intron), evaluated alternately: each one's chunk-relative codons are its own model codons inside the window",
                       bounds="first exon lengths 6..10 each, start frames 0..2, window start 9..14 (chunk length 24), either order (realised)",
                       examples=[dict(a1=8, a2=10, f0=0, w=12, first=0), dict(a1=10, a2=7, f0=1, w=10, first=1)]))
    for strand in (PLUS, MINUS):
        for lens, f0s in ((((7,), (0,)), ((4, 5), (0, 1))) if quick else (((7,), (0,)), ((9,), (0,)), ((4, 5), (0, 1, 2)), ((3, 3), (0, 2)), ((2, 4, 3), (0, 1)))):
            for f0 in f0s:
                for expand in ((False,) if quick and len(lens) > 1 and f0 else (False, True)):
                    k = len(lens)
                    frames = consistent_frames(lens, strand, f0)
                    name = "window_codons_on_chunk_%s_%s_f%d_%s" % ("-".join(map(str, lens)), sname(strand), f0, "expand" if expand else "strict")
                    desc = ("codon window (chromosome start/end%s) on a chunk-built CDS: the chunk-relative scan lists exactly the model codons fully inside "
                            "window and chunk, in frame, whatever window and chunk cut off the 5' end" % (", expanded to partial codons" if expand else ""))
                    if k == 1:
                        out.append(Obl(name + "_realised", window_codons_on_chunk(lens, strand, frames, expand, realised=True), {"s0": int, "w": int, "ws": int, "wl": int},
                                       lambda **kw: 100 <= kw["s0"] and kw["s0"] <= 102 and 96 <= kw["w"] and kw["w"] <= 106 and 97 <= kw["ws"] and kw["ws"] <= 110 and
                                       1 <= kw["wl"] and kw["wl"] <= 12, budget=900, cost=60,
                                       desc=desc + "; the same window asked in chromosome coordinates (scan_chromosome_codon_locations) equals the parent-less twin's answer",
                                       bounds="exon length %s, start frame 0, first start 100..102, chunk start 96..106 (length %d), window start 97..110, length 1..12 (realised)" % (lens, L),
                                       examples=[{"s0": 102, "w": 100, "ws": 103, "wl": 5}, {"s0": 100, "w": 104, "ws": 98, "wl": 12}]))
                        params = {"s0": int, "w": int, "ws": int, "we": int}
                        ex = {"s0": 102, "w": 100, "ws": 103, "we": 108}
                        out.append(Obl(name, window_codons_on_chunk(lens, strand, frames, expand), params,
                                       lambda **kw: kw["s0"] >= 0 and kw["w"] >= 0 and kw["ws"] >= 0 and kw["ws"] < kw["we"], budget=600, cost=60,
                                       desc=desc, bounds="exon length %s, start frame 0 (non-zero start frames of single-exon CDSs are the recorded finding F8/F8b), "
                                                         "symbolic start / chunk start / window, chunk length %d" % (lens, L),
                                       examples=[ex, dict(ex, ws=104, we=110), dict(ex, w=104, ws=101, we=140)]))
                    else:
                        params = {"s0": int, "w": int, "ws": int, "wl": int}
                        for i in range(1, k):
                            params["g%d" % i] = int
                        ex = dict({"s0": 102, "w": 100, "ws": 103, "wl": 5}, **{"g%d" % i: 2 for i in range(1, k)})
                        span = sum(lens) + 2 * (k - 1)
                        out.append(Obl(name, window_codons_on_chunk(lens, strand, frames, expand, realised=True), params,
                                       (lambda k, span: (lambda **kw: 100 <= kw["s0"] and kw["s0"] <= 102 and 98 <= kw["w"] and kw["w"] <= 100 + span - 3
                                                         and 99 <= kw["ws"] and kw["ws"] <= 100 + span and 3 <= kw["wl"] and kw["wl"] <= 8
                                                         and (k < 3 or (kw["s0"] == 100 and (kw["wl"] == 3 or kw["wl"] == 5 or kw["wl"] == 8)))
                                                         and all(1 <= kw["g%d" % i] and kw["g%d" % i] <= 2 for i in range(1, k))))(k, span),
                                       budget=900 if k < 3 else 2400, cost=60 * k, desc=desc,
                                       bounds="exon lengths %s, consistent frames from start frame %d, first start %s, gaps 1..2, chunk start 98..%d (length %d), "
                                              "window start 99..%d, window length %s (realised)" % (lens, f0, "100..102" if k < 3 else "100", 100 + span - 3, L, 100 + span,
                                                                                                   "3..8" if k < 3 else "3 / 5 / 8"),
                                       examples=[ex, dict(ex, ws=104, wl=6), dict(ex, w=104, ws=101, wl=8)] if k < 3 else
                                       [dict(ex, s0=100), dict(ex, s0=100, ws=104, wl=8), dict(ex, s0=100, w=104, ws=101, wl=8)]))
    from harness.c04 import chunk_parents_by_content_fn, parsers_importable

    if parsers_importable():
        out.append(Obl("io_parser_chunk_parents_by_content", chunk_parents_by_content_fn(), dict(e=int, d=int, where=int, order=int),
                       lambda e, d, where, order: 5 <= e and e <= (8 if quick else 12) and -1 <= d and d <= 1 and 0 <= where and where <= 4 and 0 <= order and order <= 1,
                       budget=900, cost=60,
                       desc="(shared with C04) chunks built by io.parser.seq_chunk_to_parent for the same window from two sequences that differ in one base: a feature built "
                            "on each chunk spells that chunk's own bases, in either order - the chunk view never shows another object's sequence",
                       bounds="chunk lengths 2^e-1..2^e+1 for e = 5..%d x 5 edit positions x 2 orders (closed by the solver)" % (8 if quick else 12),
                       examples=[dict(e=7, d=1, where=2, order=0)]))
    cds_shapes = [((5,), None), ((6,), None), ((7,), None), ((3, 3), None), ((4, 5), None), ((2, 4), None), ((4, 5), "shift")]
    if not quick:
        cds_shapes += [((3, 4), None), ((5, 2), None), ((1, 3), None), ((3, 3, 3), None), ((4, 2, 3), None), ((2, 2, 2), "shift")]
    for strand in (PLUS, MINUS):
        sn = sname(strand)
        for lens, mode in cds_shapes:
            k = len(lens)
            for f0 in (0, 1, 2):
                if mode == "shift":
                    frames = consistent_frames(lens, strand, f0)
                    last = k - 1 if strand is PLUS else 0
                    frames[last] = (frames[last] + 1) % 3
                else:
                    frames = consistent_frames(lens, strand, f0)
                tag = "%s_%s_f%s%s" % ("-".join(map(str, lens)), sn, "".join(map(str, frames)), "_shift" if mode else "")
                params = {"s0": int, "w": int}
                for i in range(1, k):
                    params["g%d" % i] = int

                def pre(k=k, **kw):
                    if not (kw["s0"] >= 0 and kw["w"] >= 0):
                        return False
                    for i in range(1, k):
                        if not kw["g%d" % i] >= 1:
                            return False
                    return True

                pre_ov = (lambda lens, pre: (lambda **kw: pre(**kw) and bool(_overlaps_window(_starts(lens, kw), lens, kw["w"]))))(lens, pre)
                ex = dict({"s0": 103, "w": 100}, **{"g%d" % i: 2 for i in range(1, k)})
                symbolic = (not quick) or k == 1 or (lens == (3, 3) and f0 == 1) or (lens == (4, 5) and mode == "shift" and f0 == 0 and strand is PLUS)
                if symbolic:
                    out.append(Obl("codons_on_chunk_" + tag, codons_on_chunk(lens, strand, frames), params, pre_ov, budget=900, cost=60 * k * k,
                                   consts=dict(f0=f0, n=sum(lens), plus=strand is PLUS, k=k, L=L),
                                   desc="chunk-built CDS: chromosome answers (start/end/to_dict/guid/codon locations/num_codons) equal the parent-less twin's; "
                                        "chunk-relative codons lifted back == exactly the model codons fully inside the window",
                                   bounds="exon lengths %s, frames %s, symbolic (unbounded) first start/gaps/window start, chunk length %d" % (lens, frames, L),
                                   examples=[ex, dict(ex, w=104)]))
                if f0 == 0 and mode is None and (not quick or lens in ((6,), (4, 5))):
                    pre_out = (lambda lens, pre: (lambda **kw: pre(**kw) and not bool(_overlaps_window(_starts(lens, kw), lens, kw["w"]))))(lens, pre)
                    out.append(Obl("codons_cds_outside_chunk_" + tag, codons_on_chunk(lens, strand, frames), params, pre_out, budget=600, cost=20 * k * k,
                                   desc="CDS with NO base inside its chunk: chromosome answers unchanged; it has no chunk-relative codon (an empty listing or a documented "
                                        "refusal), never codons in some other coordinate system",
                                   bounds="exon lengths %s, frames %s, symbolic (unbounded) first start/gaps/window start, chunk length %d, CDS disjoint from the window" % (lens, frames, L),
                                   examples=[dict(ex, w=400), dict(ex, s0=300)]))
                span = sum(lens)
                pre_r = (lambda k, span, pre_ov: (lambda **kw: 100 <= kw["w"] and kw["w"] <= 102 and kw["w"] - span - 8 <= kw["s0"] and
                                                  kw["s0"] <= kw["w"] + L + 2 and all(kw["g%d" % i] <= 3 for i in range(1, k)) and pre_ov(**kw)))(k, span, pre_ov)
                out.append(Obl("codons_on_chunk_realised_" + tag, codons_on_chunk(lens, strand, frames, realised=True), params, pre_r,
                               budget=600, cost=8, consts=dict(f0=f0, n=sum(lens), plus=strand is PLUS, k=k, L=L),
                               desc="as codons_on_chunk, with window start 100..102, every first start for which the CDS touches the window, gaps 1..3 "
                                    "(realised: the solver closes the finite offset space, the body runs natively)",
                               bounds="exon lengths %s, frames %s, realised offsets, chunk length %d" % (lens, frames, L), examples=[ex]))
                if quick and (k > 1 and f0 > 0 and mode is None and lens != (4, 5)):
                    continue
                sp = {"s0": int, "w": int}
                for i in range(1, k):
                    sp["g%d" % i] = int
                span = sum(lens)
                if lens in ((7,), (4, 5)) and (not quick or mode is None) and not (len(lens) == 1 and f0):  # single exon, f0 != 0: finding F8b
                    out.append(Obl("sequences_on_minus_chunk_" + tag, sequences_on_chunk(lens, strand, frames, MINUS), sp,
                                   (lambda k, span: (lambda **kw: 0 <= kw["s0"] and kw["s0"] <= 8 and 0 <= kw["w"] and kw["w"] <= 16 and all(
                                       1 <= kw["g%d" % i] and kw["g%d" % i] <= 3 for i in range(1, k)) and kw["s0"] + span + sum(
                                       kw["g%d" % i] for i in range(1, k)) <= 40))(k, sum(lens)),
                                   budget=600, cost=30, consts=dict(f0=f0, n=sum(lens), plus=strand is PLUS, k=k, L=L),
                                   desc="the same on a chunk placed on the MINUS strand of the chromosome (chunk sequence = reverse complement of the stretch): "
                                        "extract_sequence, translate, codon path, predicates, scan_codons and spliced sequence equal the in-window stretch of the "
                                        "whole-chromosome ones", bounds="exon lengths %s, frames %s, first start 0..8, gaps 1..3, window start 0..16 (realised)" % (lens, frames),
                                   examples=[dict({"s0": 3, "w": 2}, **{"g%d" % i: 2 for i in range(1, k)})]))
                out.append(Obl("sequences_on_chunk_" + tag, sequences_on_chunk(lens, strand, frames), sp,
                               (lambda k, span: (lambda **kw: 0 <= kw["s0"] and kw["s0"] <= 8 and 0 <= kw["w"] and kw["w"] <= 16 and all(
                                   1 <= kw["g%d" % i] and kw["g%d" % i] <= 3 for i in range(1, k)) and kw["s0"] + span + sum(
                                   kw["g%d" % i] for i in range(1, k)) <= 40))(k, span),
                               budget=600, cost=30, consts=dict(f0=f0, n=sum(lens), plus=strand is PLUS, k=k, L=L),
                               desc="chunk-built CDS/feature: extract_sequence (fast and codon path), translate and spliced sequence equal the in-window "
                                    "stretch of the whole-chromosome ones",
                               bounds="exon lengths %s, frames %s, first start 0..8, gaps 1..3, window start 0..16 on a 40-nt genome (realised)" % (lens, frames),
                               examples=[dict({"s0": 3, "w": 2}, **{"g%d" % i: 2 for i in range(1, k)})]))
        for kind in ("feature", "transcript"):
            for k in (1, 2):
                params = dict(layout_params(k))
                params.update(w=int, p=int)
                ex = dict({"s0": 103, "w": 100, "p": 104}, **{"l%d" % i: 3 for i in range(k)}, **{"g%d" % i: 2 for i in range(1, k)})
                out.append(Obl("%s_on_chunk_k%d_%s" % (kind, k, sn), location_on_chunk(kind, k, strand), params,
                               (lambda k: (lambda **kw: layout_pre(k, kw, min_len=1, min_gap=1) and kw["w"] >= 0))(k), budget=400, cost=15 * k * k,
                               desc="chunk-built %s: chromosome coordinates/blocks/to_dict unchanged; chunk-relative location lifted back == chromosome "
                                    "location inside the window (offsets from the window start); no base in the chunk => EmptyLocation, not an error" % kind,
                               bounds="%d blocks, symbolic coordinates and window start, chunk length %d" % (k, L), examples=[ex, dict(ex, w=400)]))
        for kind, k in ((("feature", 2), ("cds", 3)) if quick else (("feature", 2), ("feature", 3), ("transcript", 3), ("cds", 2), ("cds", 3), ("cds", 4))):
            params = dict(layout_params(k))
            params.update(w=int)
            ex = dict({"s0": 103, "w": 100}, **{"l%d" % i: 3 for i in range(k)}, **{"g%d" % i: 0 for i in range(1, k)})
            out.append(Obl("blocks_on_chunk_%s_k%d_%s" % (kind, k, sn), blocks_on_chunk(kind, k, strand), params,
                           (lambda k: (lambda **kw: layout_pre(k, kw, min_len=1, min_gap=0) and kw["w"] >= 0))(k), budget=600, cost=20 * k * k,
                           desc="chunk-built %s: the chunk-relative blocks are the chromosome blocks clipped to the window, block for block - blocks that "
                                "touch (0-bp gap, a modelled frameshift) stay separate blocks whatever the window cuts" % kind,
                           bounds="%d blocks with gaps >= 0 (adjacent allowed), symbolic coordinates and window start, chunk length %d" % (k, L),
                           examples=[ex, dict(ex, w=105), dict(ex, g1=2)]))
        for cstrand in (PLUS, MINUS):
            out.append(Obl("chunk_accessors_%s_chunk%s" % (sn, sname(cstrand)), chunk_accessors(strand, cstrand),
                           dict(s0=int, l0=int, g1=int, l1=int, g2=int, l2=int, ca=int, cb=int, w=int, Lc=int),
                           (lambda cstrand: (lambda s0, l0, g1, l1, g2, l2, ca, cb, w, Lc: 10 <= s0 and s0 <= (10 if quick else 11) and 4 <= l0 and l0 <= 5 and g1 == 2 and 3 <= l1 and l1 <= 4 and
                                             2 <= g2 and g2 <= 3 and l2 == 5 and 0 <= ca and ca <= 2 and 1 <= cb and cb <= 2 and 4 <= w and w <= 32 and
                                             (Lc == 8 or Lc == 16 or Lc == 30) and (cstrand is PLUS or not quick or Lc == 16)))(cstrand), budget=900, cost=120,
                           desc="coding transcript (3 exons) on a %s-strand chunk that may cut it anywhere: chunk-relative exon / CDS blocks, starts, ends, sizes, span, "
                                "gaps = introns, strand, position and interval conversions along the visible part, and from_chunk_relative_location all equal the "
                                "chromosome view restricted to the window" % sname(cstrand),
                           bounds="exons 4..5 / 3..4 / 5 nt, introns 2 / 2..3, CDS start 0..2 into exon 1 and end 1..2 before the end of exon 3, first start 10..11, chunk "
                                  "lengths 8 / 16 / 30 starting at 4..32 (realised)",
                           examples=[dict(s0=10, l0=4, g1=2, l1=3, g2=2, l2=5, ca=1, cb=1, w=12, Lc=16), dict(s0=10, l0=5, g1=2, l1=4, g2=3, l2=5, ca=0, cb=2, w=4, Lc=16)]))
        for shape in ("e0", "both"):
            out.append(Obl("utr_on_minus_chunk_%s_%s" % (shape, sn), utr_on_chunk(shape, strand, MINUS), dict(s0=int, l0=int, g1=int, l1=int, ca=int, cb=int, w=int),
                           (lambda shape, pre0: (lambda **kw: pre0(**kw) and kw["s0"] == 100 and (kw["l0"] == 5 or not quick)))(shape, utr_pre(shape)), budget=900, cost=90,
                           desc="the same on a chunk that is placed on the MINUS strand of the chromosome (chunk coordinates run backwards, the transcript's strand is "
                                "reversed in the chunk view): UTRs = chromosome UTR bases inside the window, with the chunk's own sequence",
                           bounds="as utr_on_chunk with first start 100%s, CDS in exon(s) %s, minus-strand chunk (realised)" % (", first exon 5 nt" if quick else "", shape),
                           examples=[dict(s0=100, l0=5, g1=3, l1=6, ca=2, cb=1, w=98), dict(s0=100, l0=5, g1=3, l1=6, ca=1, cb=1, w=104)]))
        for shape in ("e0", "e1", "both"):
            out.append(Obl("utr_on_chunk_%s_%s" % (shape, sn), utr_on_chunk(shape, strand), dict(s0=int, l0=int, g1=int, l1=int, ca=int, cb=int, w=int),
                           utr_pre(shape), budget=900, cost=90,
                           desc="coding transcript on a chunk: get_5p_interval / get_3p_interval are exactly the whole-chromosome UTR bases inside the window, in "
                                "chunk coordinates and with their sequence, whatever the window cuts off the transcript or its CDS (empty, not an error, when none is inside)",
                           bounds="2 exons (4..6 nt, intron 2..3), CDS start/end 0..2 nt into / before the end of exon(s) %s, first start 100..101, window start 94..116, "
                                  "chunk length %d (realised)" % (shape, L),
                           examples=[dict(s0=100, l0=6, g1=3, l1=6, ca=2, cb=1, w=98), dict(s0=100, l0=6, g1=3, l1=6, ca=2, cb=1, w=104),
                                     dict(s0=100, l0=6, g1=3, l1=6, ca=0, cb=0, w=110)]))
        out.append(Obl("cds_sliced_out_%s" % sn, cds_sliced_out(strand), dict(s0=int, l0=int, g1=int, l1=int, co=int, cl=int, w=int, p=int),
                       lambda s0, l0, g1, l1, co, cl, w, p: s0 >= 0 and l0 >= 1 and g1 >= 1 and l1 >= 1 and co >= 0 and cl >= 1 and co + cl <= l1 and w >= 0,
                       budget=600, cost=120,
                       desc="coding transcript on a chunk: stays coding with unchanged chromosome CDS bounds whatever the window; the CDS chunk-relative "
                            "location is empty exactly when no CDS base is inside, the transcript's exactly when no exon base is inside",
                       bounds="2 exons, CDS inside the second exon, symbolic window", examples=[dict(s0=100, l0=5, g1=3, l1=9, co=2, cl=6, w=96, p=110)]))
        out.append(Obl("conversions_on_chunk_%s" % sn, conversions_on_chunk(strand), dict(s0=int, w=int, co=int, ce=int),
                       lambda s0, w, co, ce: 100 <= w and w <= 102 and w - 16 <= s0 and s0 <= w + L + 2 and (co == 0 or co == 2 or co == 4) and (ce == 1 or ce == 3 or ce == 6),
                       budget=600, cost=60,
                       desc="coding transcript on a chunk whose window may cut it anywhere (or miss it): sequence/transcript/CDS/amino-acid position conversions give "
                            "the same value or the same refusal as on the parent-less twin, for every position (position conversions are chromosome-level answers)",
                       bounds="2 exons (5+6 nt, 3-nt intron), CDS start offset 0/2/4, CDS end offset 1/3/6, window start 100..102, every transcript offset touching "
                              "or missing the window, chunk length %d (realised)" % L,
                       examples=[dict(s0=98, w=100, co=2, ce=3), dict(s0=110, w=101, co=0, ce=6)]))
        out.append(Obl("conversions_on_minus_chunk_%s" % sn, conversions_on_chunk(strand, MINUS), dict(s0=int, w=int, co=int, ce=int),
                       lambda s0, w, co, ce: 100 <= w and w <= 102 and w - 16 <= s0 and s0 <= w + L + 2 and (co == 0 or co == 2 or co == 4) and (ce == 1 or ce == 3 or ce == 6),
                       budget=600, cost=60,
                       desc="(chunk placed on the MINUS strand) coding transcript on a chunk whose window may cut it anywhere (or miss it): sequence/transcript/CDS/amino-acid position conversions give "
                            "the same value or the same refusal as on the parent-less twin, for every position (position conversions are chromosome-level answers)",
                       bounds="2 exons (5+6 nt, 3-nt intron), CDS start offset 0/2/4, CDS end offset 1/3/6, window start 100..102, every transcript offset touching "
                              "or missing the window, chunk length %d (realised)" % L,
                       examples=[dict(s0=98, w=100, co=2, ce=3), dict(s0=110, w=101, co=0, ce=6)]))
        if quick and strand is MINUS:
            continue
        out.append(Obl("gene_on_chunk_%s" % sn, gene_on_chunk(strand), dict(s0=int, l0=int, g1=int, l1=int, w=int),
                       lambda s0, l0, g1, l1, w: s0 >= 0 and l0 >= 1 and g1 >= 1 and l1 >= 1 and w >= 0, budget=400, cost=60,
                       desc="gene / feature collection on a chunk: span and to_dict unchanged, chunk-relative span = span clipped to the window",
                       bounds="2 single-exon transcripts, symbolic window", examples=[dict(s0=103, l0=3, g1=2, l1=3, w=100)]))
    return out
