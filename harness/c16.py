"""C16 — genomic bin assignment is the UCSC scheme and never hides a contained feature.

SMT obligations on the encoding of util/bins.py::bins regenerated from its AST at every run (vlib/src2smt.py), over ALL
integers; CrossHair obligations for the wiring (every constructor stores bins(start, end, fmt="bed")).
"""
import itertools

from vlib import findings
from vlib.obl import Obl

LEVELS = 5
FIRST, NEXT = 17, 3
MAXC = 2 ** 29
REF_OFFSETS = [4681, 585, 73, 9, 1]  # independent statement of the UCSC numbering documented in bins.py (Fig. 7)

META = dict(
    functions=["util.bins.bins (AST -> z3 Int terms with div 2^k; one=True as ITE term, one=False as membership predicate)",
               "TranscriptInterval/FeatureInterval/GeneInterval/FeatureIntervalCollection/VariantInterval/"
               "VariantIntervalCollection constructors (bin wiring, CrossHair)"],
    bounds="none on coordinates: start/stop/query bounds are unbounded mathematical integers (negative and >= 2^29 included)",
    outside="the claim is about bins() as parsed: an AST outside the supported subset makes the check inconclusive",
    stubs=["wiring obligations: bins() replaced by a recording stub returning ('BIN', start, stop, fmt)", "S1 S2 S4 S6 S11"],
    assumptions=["z3 5.1 soundness on linear integer arithmetic with div by constants (cvc5 1.4 agrees on every query)",
                 "python >> k on ints == floor division by 2^k == z3 euclidean div for positive divisor",
                 "reference = hierarchical UCSC binning, 5 levels, finest 128 kb, factor 8, offsets 4681/585/73/9/1, "
                 "0-based half-open intervals: smallest bin whose extent contains [start, end)"],
    engines="src2smt (vlib/src2smt.py) -> z3 5.1.0 Python API, cross-checked with cvc5 1.4.0; CrossHair for wiring",
    batch_cost=5.0,
)


# ------------------------------------------------------------------ independent reference (python ints) + its z3 twin
def ref_bin(start, end):
    """smallest standard bin containing the 0-based half-open interval [start, end); 1 if out of range"""
    if start < 0 or end < 0 or start >= MAXC or end > MAXC:
        return 1
    last = max(end - 1, start)  # empty interval: treat as the single position `start`
    sb, eb = start >> FIRST, last >> FIRST
    for off in REF_OFFSETS:
        if sb == eb:
            return off + sb
        sb >>= NEXT
        eb >>= NEXT
    return 1


def ref_bin_z3(z3, start, end):
    last = z3.If(end - 1 > start, end - 1, start)
    sb, eb = start / 2 ** FIRST, last / 2 ** FIRST
    terms = []
    for off in REF_OFFSETS:
        terms.append((sb == eb, off + sb))
        sb, eb = sb / 8, eb / 8
    out = z3.IntVal(1)
    for c, v in reversed(terms):
        out = z3.If(c, v, out)
    return out


def extent_contains_z3(z3, b, start, end):
    """bin b (any level) has an extent containing [start, end)"""
    alts = []
    for lvl, off in enumerate(REF_OFFSETS):
        size = 2 ** (FIRST + NEXT * lvl)
        nb = 2 ** (29 - FIRST - NEXT * lvl)
        idx = b - off
        alts.append(z3.And(idx >= 0, idx < nb, idx * size <= start, end <= (idx + 1) * size))
    return z3.Or(alts)


def extent_contains(b, start, end):
    for lvl, off in enumerate(REF_OFFSETS):
        size = 2 ** (FIRST + NEXT * lvl)
        nb = 2 ** (29 - FIRST - NEXT * lvl)
        idx = b - off
        if 0 <= idx < nb and idx * size <= start and end <= (idx + 1) * size:
            return True
    return False


def _real_bins(memo=None):
    """the real function. With `memo` (earlier calls named by a solver model of a memoising bins()): a FRESH module (empty memo tables) in which
    those calls are made first, in order"""
    import importlib

    import inscripta.biocantor.util.bins as B

    if memo is not None:
        B = importlib.reload(B)
        for c in memo:
            try:
                B.bins(c["start"], c["stop"], fmt=c["fmt"], one=c["one"])
            except Exception:  # noqa
                pass
    return B.bins


def _rb(kw):
    """the real bins for one concrete evaluation: fresh module + the model's earlier calls when the counterexample names some (memoising bins)"""
    if kw.get("memo") is not None:
        if "_fn" not in kw:
            kw["_fn"] = _real_bins(kw["memo"])
        return kw["_fn"]
    return _real_bins()


def _region_env(z3=None):
    if z3 is None:
        return {"AND": lambda *a: all(a), "OR": lambda *a: any(a), "NOT": lambda a: not a}
    return {"AND": z3.And, "OR": z3.Or, "NOT": z3.Not}


# ------------------------------------------------------------------ translator validation (encoding vs real function)
GRID_STARTS = [0, 1, 2, 131071, 131072, 131073, 2 ** 20 - 1, 2 ** 20, 2 ** 20 + 1, 2 ** 23 - 1, 2 ** 23, 2 ** 26 - 1,
               2 ** 26, 2 ** 26 + 5, 2 ** 29 - 2, 2 ** 29 - 1, 2 ** 29, 2 ** 29 + 7, -1, -131072]
GRID_LENS = [0, 1, 2, 131071, 131072, 131073, 2 ** 20, 2 ** 23 + 1, 2 ** 28]
PROBE_BINS = [0, 1, 2, 8, 9, 10, 16, 17, 72, 73, 74, 136, 137, 584, 585, 586, 1096, 1097, 4680, 4681, 4682, 4689, 8776, 8777]


def validate_translator():
    import z3

    from vlib.src2smt import BinsEncoder

    enc = BinsEncoder()
    memo = enc.has_memo
    if memo:
        enc.mode = "fresh"  # validate the single-call semantics: every memo lookup misses (a fresh process)
    real = _real_bins()
    n = 0
    zs, ze, zb = z3.Ints("zs ze zb")
    for fmt in ("bed", "gff"):
        t_one = enc.bin1(zs, ze, fmt)
        t_all = enc.inbins(zb, zs, ze, fmt)
        for s, l in itertools.product(GRID_STARTS, GRID_LENS):
            e = s + l
            if memo:
                real = _real_bins(memo=[])  # fresh module: empty memo tables
            sub = [(zs, z3.IntVal(s)), (ze, z3.IntVal(e))]
            got = z3.simplify(z3.substitute(t_one, *sub))
            exp = real(s, e, fmt=fmt)
            if not isinstance(exp, int):
                exp = -777  # one=True fell through and returned the set (e.g. gff start 0): encoded as -777
            if got.as_long() != exp:
                return dict(verdict="ERROR", message="translator disagrees with bins(%d,%d,%s): enc=%s real=%s" % (s, e, fmt, got, exp))
            if memo:
                real = _real_bins(memo=[])
            allb = real(s, e, fmt=fmt, one=False)
            for b in PROBE_BINS:
                g = z3.is_true(z3.simplify(z3.substitute(t_all, (zb, z3.IntVal(b)), *sub)))
                if g != (b in allb):
                    return dict(verdict="ERROR", message="translator set membership disagrees at bins(%d,%d,%s) bin %d" % (s, e, fmt, b))
            n += 1
    return dict(verdict="CONFIRMED", validated=n, queries=0, ast_nodes=enc.nodes,
                message="encoding == real bins() on %d boundary vectors x %d probed bins (both fmt)%s" % (
                    n, len(PROBE_BINS), "; bins() keeps a memo table (%s): validated with an empty table, queries quantify over arbitrary earlier calls" % ", ".join(sorted(enc.memo_names)) if memo else ""))


# ------------------------------------------------------------------ SMT obligations
def _grid_fallback(z3, assume, vars_, concrete):
    s, e, qs, qe = vars_
    cond = z3.And(assume) if assume else z3.BoolVal(True)
    uses_q = any(str(v) in str(cond) for v in ("qs", "qe"))
    pts = [(a, a + l) for a in GRID_STARTS for l in GRID_LENS]
    qpts = [(0, 0)] if not uses_q else [(a - d1, b + d2) for a, b in pts[::7] for d1 in (0, 1, 131072) for d2 in (0, 1, 131072)]
    n = 0
    for (a, b) in pts:
        for (qa, qb) in (qpts if uses_q else [(0, 0)]):
            n += 1
            if n > 60000:
                return None
            ok = z3.simplify(z3.substitute(cond, (s, z3.IntVal(a)), (e, z3.IntVal(b)), (qs, z3.IntVal(qa)), (qe, z3.IntVal(qb))))
            if not z3.is_true(ok):
                continue
            try:
                holds = concrete(start=a, stop=b, qs=qa, qe=qb)
            except Exception:  # noqa
                holds = False
            if not holds:
                return dict(start=a, stop=b, qs=qa, qe=qb)
    return None


def _smt(name, build, concrete, desc):
    """build(z3, enc, s, e, qs, qe) -> list of assertions (assumptions + NEGATED property)"""

    def fn():
        import z3

        from vlib.src2smt import BinsEncoder, EncodingError, Query

        s, e, qs, qe = z3.Ints("start stop qs qe")
        assume, excluded = [], []
        try:
            enc = BinsEncoder()
            assume, negprop_fn = build(z3, enc, s, e, qs, qe)
            for fid, region in findings.regions_for("C16", name):
                env = _region_env(z3)
                env.update(start=s, stop=e, qs=qs, qe=qe)
                assume.append(z3.Not(eval(region, env)))
                excluded.append(fid)
            negprop = negprop_fn()
        except EncodingError as ex:
            # bins() is no longer inside the translatable subset: the solver cannot decide. Fallback (stated as such in
            # evidence): run the concrete property on the boundary grid; a failing point is reported through replay,
            # otherwise the obligation stays INCONCLUSIVE (never green).
            msg = "encoding no longer valid for bins(): %s" % ex
            if assume:
                bad = _grid_fallback(z3, assume, (s, e, qs, qe), concrete)
                if bad is not None:
                    return dict(verdict="REFUTED", cex=bad, queries=0, fallback="concrete boundary grid",
                                message=msg + "; concrete boundary grid found a failing input %s" % bad)
            return dict(verdict="UNKNOWN", message=msg, queries=0)
        nq = 0
        if enc.side_conditions:
            # the encoding is exact only where its side conditions hold (subscripts in range, |x| < 2^64 for bit_length):
            # an input within the assumptions that violates one is a candidate counterexample (IndexError in the real code)
            sc = Query(name + ":side", memo_calls=enc.memo_calls, vars_=[s, e, qs, qe], assertions=assume + [s > -2 ** 62, s < 2 ** 62, e > -2 ** 62, e < 2 ** 62, qs > -2 ** 62, qs < 2 ** 62,
                                                 qe > -2 ** 62, qe < 2 ** 62, z3.Not(z3.And(enc.side_conditions))]).solve(cross=False)
            nq += 1
            if sc["z3"] == "sat":
                return dict(verdict="REFUTED", cex=sc["model"], queries=nq,
                            message="encoding side condition (index in range) violated: z3 model %s" % sc["model"])
            if sc["z3"] != "unsat":
                return dict(verdict="UNKNOWN", message="side-condition query: %s" % sc["z3"], queries=nq)
            assume = assume + [s > -2 ** 62, s < 2 ** 62, e > -2 ** 62, e < 2 ** 62, qs > -2 ** 62, qs < 2 ** 62, qe > -2 ** 62, qe < 2 ** 62]
        res = Query(name, assume + [negprop], [s, e, qs, qe], memo_calls=enc.memo_calls).solve()
        out = dict(queries=nq + (2 if res.get("cvc5") in ("sat", "unsat") else 1), z3=res["z3"], cvc5=res.get("cvc5"),
                   solver_s=res["z3_s"], excluded_known_findings=excluded)
        if res["z3"] == "unsat" and res.get("cvc5") in ("unsat", "unavailable", "unknown", "none") or \
                (res["z3"] == "unsat" and str(res.get("cvc5", "")).startswith("error")):
            out["verdict"] = "CONFIRMED"
        elif res["z3"] == "sat":
            out["verdict"] = "REFUTED"
            out["cex"] = res["model"]
            out["message"] = "z3 model %s" % res["model"]
        else:
            out["verdict"] = "UNKNOWN"
            out["message"] = "z3=%s cvc5=%s" % (res["z3"], res.get("cvc5"))
        if res["z3"] == "unsat" and res.get("cvc5") == "sat":
            out["verdict"] = "UNKNOWN"
            out["message"] = "solvers disagree: z3 unsat, cvc5 sat"
        return out

    return Obl(name, fn, {}, None, kind="smt", concrete=concrete, desc=desc, twin=False, cost=2,
               bounds="all integers")


def obligations(tier):
    out = []
    out.append(Obl("translator_validation", validate_translator, {}, None, kind="smt", twin=False, cost=3,
                   concrete=lambda **kw: True,
                   desc="the z3 encoding regenerated from bins()'s AST equals the real function on boundary grids (value and set membership)",
                   bounds="%d starts x %d lengths x 2 fmt" % (len(GRID_STARTS), len(GRID_LENS))))

    # 1. one=True equals the UCSC reference for in-range coordinates (bed convention)
    def b1(z3, enc, s, e, qs, qe):
        return [0 <= s, s <= e, e < MAXC], lambda: enc.bin1(s, e, "bed") != ref_bin_z3(z3, s, e)

    def c1(start, stop, **kw):
        return _rb(kw)(start, stop, fmt="bed") == ref_bin(start, stop)

    out.append(_smt("kent_equal_bed", b1, c1, "bins(s,e,'bed') == smallest UCSC bin containing [s,e) for all 0<=s<=e<2^29"))

    # 1b. gff convention: 1-based closed [s, e] == 0-based [s-1, e)
    def b1g(z3, enc, s, e, qs, qe):
        return [1 <= s, s <= e, e < MAXC], lambda: enc.bin1(s, e, "gff") != ref_bin_z3(z3, s - 1, e)

    def c1g(start, stop, **kw):
        return _rb(kw)(start, stop, fmt="gff") == ref_bin(start - 1, stop)

    out.append(_smt("kent_equal_gff", b1g, c1g, "bins(s,e,'gff') == smallest UCSC bin containing 1-based closed [s,e] for all 1<=s<=e<2^29"))

    # 2. out of range -> 1
    def b2(z3, enc, s, e, qs, qe):
        return [z3.Or(s < 0, e < 0, s >= MAXC, e >= MAXC)], lambda: z3.Or(enc.bin1(s, e, "bed") != 1, enc.bin1(s, e, "gff") != 1)

    def c2(start, stop, **kw):
        return _rb(kw)(start, stop, fmt="bed") == 1 and _rb(kw)(start, stop, fmt="gff") == 1

    out.append(_smt("out_of_range_is_1", b2, c2, "negative or >= 2^29 coordinates get bin 1 (both conventions)"))

    # 3. the assigned bin always CONTAINS the interval (the part range queries rely on)
    def b3(z3, enc, s, e, qs, qe):
        return [0 <= s, s <= e, e < MAXC], lambda: z3.Not(extent_contains_z3(z3, enc.bin1(s, e, "bed"), s, e))

    def c3(start, stop, **kw):
        return extent_contains(_rb(kw)(start, stop, fmt="bed"), start, stop)

    out.append(_smt("assigned_bin_contains_interval", b3, c3, "extent of bins(s,e,'bed') contains [s,e) for all 0<=s<=e<2^29"))

    # 3b. one=True always returns an int (never falls through to the set)
    def b3b(z3, enc, s, e, qs, qe):
        return [], lambda: z3.Or(enc.bin1(s, e, "bed") == -777, z3.And(s >= 1, enc.bin1(s, e, "gff") == -777))

    def c3b(start, stop, **kw):
        return isinstance(_rb(kw)(start, stop, fmt="bed"), int) and (
            start < 1 or isinstance(_rb(kw)(start, stop, fmt="gff"), int))

    out.append(_smt("one_true_returns_int", b3b, c3b, "bins(one=True) returns a bin number for every pair of integers (gff: for every 1-based start >= 1)"))

    # 4. contract used by range queries: contained => assigned bin in the query's bin set
    def b4(z3, enc, s, e, qs, qe):
        return [0 <= qs, qs <= s, s <= e, e <= qe, qs < qe], lambda: z3.Not(enc.inbins(enc.bin1(s, e, "bed"), qs, qe, "bed"))

    def c4(start, stop, qs, qe, **kw):
        real = _rb(kw)
        return real(start, stop, fmt="bed") in real(qs, qe, fmt="bed", one=False)

    out.append(_smt("contained_never_hidden", b4, c4,
                    "for every query [qs,qe) and interval [s,e) contained in it: bins(s,e) in bins(qs,qe,one=False)"))

    # 5. overlapping => assigned bin in the query's bin set
    def b5(z3, enc, s, e, qs, qe):
        return [0 <= qs, qs < qe, 0 <= s, s < e, s < qe, qs < e], lambda: z3.Not(enc.inbins(enc.bin1(s, e, "bed"), qs, qe, "bed"))

    out.append(_smt("overlapping_never_hidden", b5, c4,
                    "for every query [qs,qe) and interval [s,e) overlapping it: bins(s,e) in bins(qs,qe,one=False)"))

    # 6. wiring (CrossHair): every constructor stores bins(start, end, fmt='bed')
    out.extend(_wiring(tier))
    # 7. the consumer: range queries on the real collection code with the EXACT bin semantics (bins() as z3 terms from source)
    out.extend(_prefilter(tier))
    return out


def _prefilter(tier):
    """'bin-based pre-filtering can never change the answer of a range query': a gene with two isoforms separated by a gap (the pre-filter looks at the
    isoforms' bins, the answer is about the gene's span) plus a feature collection, symbolic coordinates and query, exact bins"""
    from inscripta.biocantor.exc import InvalidQueryError
    from inscripta.biocantor.gene.collections import AnnotationCollection
    from inscripta.biocantor.gene.feature import FeatureInterval, FeatureIntervalCollection
    from inscripta.biocantor.gene.gene import GeneInterval
    from inscripta.biocantor.gene.transcript import TranscriptInterval

    from harness.common import AND, OR, PLUS
    from vlib.sym import IFF

    def qfn(within, with_fc=True):
        def fn(s0, l0, g, l1, fs, fl, hi, qs, qe):
            t1 = TranscriptInterval([s0], [s0 + l0], PLUS, guid=601)
            t2 = TranscriptInterval([s0 + l0 + g], [s0 + l0 + g + l1], PLUS, guid=602)
            gene = GeneInterval([t1, t2], guid=701)
            spans = {701: (s0, s0 + l0 + g + l1)}
            fcs = []
            if with_fc:
                fcs = [FeatureIntervalCollection([FeatureInterval([fs], [fs + fl], PLUS, guid=603)], guid=702)]
                spans[702] = (fs, fs + fl)
            coll = AnnotationCollection(genes=[gene], feature_collections=fcs, sequence_name="chr1", start=0, end=hi)
            try:
                res = coll.query_by_position(qs, qe, completely_within=within)
            except InvalidQueryError:
                return False
            got = [c.guid for c in res.iter_children()]
            conds = []
            for guid, (s, e) in spans.items():
                conds.append(IFF(guid in got, AND(qs <= s, e <= qe) if within else AND(s < qe, qs < e)))
            return AND(*conds)

        return fn

    def qfn_members(within, kind):
        """kind 'variant': one gene plus one variant collection anywhere (also far outside the gene's hull); kind 'sameguid': two genes that share one
        (user-supplied) guid, anywhere: each member is judged on its own span"""
        from inscripta.biocantor.gene.variants import VariantInterval, VariantIntervalCollection

        def fn(s0, l0, vs, vl, hi, qs, qe):
            g1 = GeneInterval([TranscriptInterval([s0], [s0 + l0], PLUS, guid=611)], guid=711)
            if kind == "variant":
                other = VariantIntervalCollection([VariantInterval(vs, vs + vl, "A", "indel", guid=612)], guid=712)
                coll = AnnotationCollection(genes=[g1], variant_collections=[other], sequence_name="chr1", start=0, end=hi)
            else:
                other = GeneInterval([TranscriptInterval([vs], [vs + vl], PLUS, guid=613)], guid=711)
                coll = AnnotationCollection(genes=[g1, other], sequence_name="chr1", start=0, end=hi)
            try:
                res = coll.query_by_position(qs, qe, completely_within=within)
            except InvalidQueryError:
                return False
            got = list(res.iter_children())
            conds = []
            for (s, e) in ((s0, s0 + l0), (vs, vs + vl)):
                want = AND(qs <= s, e <= qe) if within else AND(s < qe, qs < e)
                present = OR(*[AND(c.start == s, c.end == e) for c in got]) if got else False
                conds.append(IFF(present, want))
            return AND(*conds)

        return fn

    out = []
    pre = lambda s0, l0, g, l1, fs, fl, hi, qs, qe: (s0 >= 0 and l0 >= 1 and g >= 1 and l1 >= 1 and fs >= 0 and fl >= 1 and s0 + l0 + g + l1 <= hi  # noqa: E731
                                                     and fs + fl <= hi and 0 <= qs and qs < qe and qe <= hi)
    P = dict(s0=int, l0=int, g=int, l1=int, fs=int, fl=int, hi=int, qs=int, qe=int)
    exs = [dict(s0=10, l0=5, g=20, l1=5, fs=3, fl=4, hi=100, qs=18, qe=30), dict(s0=131000, l0=50, g=400000, l1=50, fs=150200, fl=300, hi=900000, qs=150200, qe=150800)]
    from vlib.obl import split_cubes

    desc = ("AnnotationCollection.query_by_position on the real code with the exact semantics of bins(): a 2-isoform gene (gap between the isoforms)%s "
            "returned exactly when the SPAN lies within (strict) / overlaps (relaxed) the query, whatever bins the isoforms occupy")
    out.append(Obl("prefilter_exact_bins_relaxed", qfn(False), dict(P), pre, budget=900, cost=150, stubs=dict(bins="smt"), examples=exs,
                   desc=desc % " and a feature collection are", bounds="1 gene with 2 single-exon isoforms + 1 feature collection, unbounded symbolic coordinates and query"))
    # strict mode, gene only (quick and thorough); with the feature collection as second member in the thorough tier
    o = Obl("prefilter_exact_bins_strict_gene", qfn(True, with_fc=False), dict(P),
            lambda s0, l0, g, l1, fs, fl, hi, qs, qe: pre(s0, l0, g, l1, fs, fl, hi, qs, qe) and fs == 0 and fl == 1, budget=900, cost=120, stubs=dict(bins="smt"),
            examples=[dict(e, fs=0, fl=1) for e in exs], desc=desc % " is", bounds="1 gene with 2 single-exon isoforms, unbounded symbolic coordinates and query")
    out.extend(split_cubes(o, {"qs_le_gene": lambda **kw: kw["qs"] <= kw["s0"], "qe_ge_gene": lambda **kw: kw["qe"] >= kw["s0"] + kw["l0"] + kw["g"] + kw["l1"]}))
    prem = lambda s0, l0, vs, vl, hi, qs, qe: (s0 >= 0 and l0 >= 1 and vs >= 0 and vl >= 1 and s0 + l0 <= hi and vs + vl <= hi and 0 <= qs and qs < qe and qe <= hi  # noqa: E731
                                               and (vs != s0 or vl != l0))
    PM = dict(s0=int, l0=int, vs=int, vl=int, hi=int, qs=int, qe=int)
    exm = [dict(s0=1000, l0=500, vs=300000, vl=1, hi=900000, qs=500, qe=393216), dict(s0=100, l0=50, vs=400, vl=2, hi=1000, qs=90, qe=300)]
    for kind in ("variant", "sameguid"):
        for within in ((True,) if tier == "quick" else (True, False)):
            o = Obl("prefilter_exact_bins_%s_%s" % ("strict" if within else "relaxed", kind), qfn_members(within, kind), dict(PM),
                    (lambda kind: (lambda **kw: prem(**kw) and (kind != "variant" or (kw["vl"] <= 3 and (kw["vs"] + kw["vl"] <= kw["s0"] or kw["s0"] + kw["l0"] <= kw["vs"])))))(kind), budget=900, cost=150, stubs=dict(bins="smt"), examples=exm,
                    desc="query_by_position with exact bins() semantics on a collection holding a gene and %s: each member is returned exactly when ITS span lies "
                         "within / overlaps the query" % ("a variant collection lying anywhere (also far outside the hull of the genes)" if kind == "variant" else
                                                          "a second gene carrying the SAME user-supplied guid, lying anywhere"),
                    bounds="2 members, unbounded symbolic coordinates and query")
            out.extend(split_cubes(o, {"q_holds_first": lambda **kw: kw["qs"] <= kw["s0"] and kw["s0"] + kw["l0"] <= kw["qe"],
                                       "q_holds_second": lambda **kw: kw["qs"] <= kw["vs"] and kw["vs"] + kw["vl"] <= kw["qe"]}))
    from harness.c09 import many_members_fn

    out.append(Obl("prefilter_many_members_across_bins", many_members_fn(), dict(n=int, h=int, span=int, q=int, ab=int, within=int, sc=int, co=int),
                   lambda n, h, span, q, ab, within, sc, co: n == 70 and 0 <= h and h <= 1 and (span == 1 or span == 5 or span == 39) and
                   (q == 0 or q == 1 or q == 2 or q == 5 or q == 6 or q == 40 or q == 41) and 0 <= ab and ab <= 3 and 0 <= within and within <= 1 and sc == 3000
                   and 0 <= co and co <= 1, budget=900, cost=120, stubs=dict(bins="real"),
                   desc="72-member collection spread over 160+ 128-kb bins (short genes every 300 kb, every third one coding; a long coding gene and a long feature collection "
                        "crossing many bin boundaries): strict and relaxed position queries, with and without coding_only, return exactly the members within / "
                        "overlapping - whatever order bins and members come in (real bins())",
                   bounds="72 members, tile 300 kb; host start 2 x host span 3 x query tile 7 x query shape 4 x strict/relaxed x coding_only (closed by the solver)",
                   examples=[dict(n=70, h=0, span=39, q=2, ab=0, within=1, sc=3000, co=0), dict(n=70, h=1, span=5, q=5, ab=3, within=1, sc=3000, co=1)]))
    if tier == "quick":
        # the straddling situation (query strictly inside the gene's span, feature collection starting after the gene): one cube of the thorough obligation
        o = Obl("prefilter_exact_bins_strict_straddle", qfn(True), dict(P),
                lambda s0, l0, g, l1, fs, fl, hi, qs, qe: pre(s0, l0, g, l1, fs, fl, hi, qs, qe) and fs >= s0 and qs > s0 and qe < s0 + l0 + g + l1,
                budget=900, cost=200, stubs=dict(bins="smt"), examples=[exs[1]],
                desc=desc % " straddling the query and a feature collection are", bounds="as prefilter_exact_bins_strict, query strictly inside the gene's span")
        out.append(o)
    if tier != "quick":
        o = Obl("prefilter_exact_bins_strict", qfn(True), dict(P), pre, budget=1800, cost=400, stubs=dict(bins="smt"), examples=exs,
                desc=desc % " and a feature collection are", bounds="1 gene with 2 single-exon isoforms + 1 feature collection, unbounded symbolic coordinates and query")
        out.extend(split_cubes(o, {"fc_first": lambda **kw: kw["fs"] < kw["s0"], "qs_le_gene": lambda **kw: kw["qs"] <= kw["s0"],
                                   "qe_ge_gene": lambda **kw: kw["qe"] >= kw["s0"] + kw["l0"] + kw["g"] + kw["l1"]}))
    return out


# ------------------------------------------------------------------ wiring
STUBS = dict(bins="record")


def _wiring(tier):
    from harness.common import AND, MINUS, PLUS, layout_blocks, layout_params, layout_pre

    def expect(obj, s, e):
        b = obj.bin
        if isinstance(b, tuple):  # symbolic run: recording stub
            return AND(b[0] == "BIN", b[1] == s, b[2] == e, b[3] == "bed", b[4] is True)
        from vlib.sym import HAVE_CH

        if HAVE_CH:
            from vlib import stubs

            if stubs.INSTALLED.get("bins") == "smt":  # symbolic run on the exact bin terms: the stored bin is the bin of the object's own span
                from vlib.binstub import bins_smt

                return b == bins_smt(s, e, "bed", True)
        return b == _real_bins()(s, e, fmt="bed")

    def tx(**kw):
        from inscripta.biocantor.gene.transcript import TranscriptInterval

        bl = layout_blocks(2, kw)
        t = TranscriptInterval([b[0] for b in bl], [b[1] for b in bl], PLUS, guid=3)
        return expect(t, bl[0][0], bl[1][1])

    def feat(**kw):
        from inscripta.biocantor.gene.feature import FeatureInterval

        bl = layout_blocks(2, kw)
        t = FeatureInterval([b[0] for b in bl], [b[1] for b in bl], MINUS, guid=3)
        return expect(t, bl[0][0], bl[1][1])

    def gene(**kw):
        from inscripta.biocantor.gene.gene import GeneInterval
        from inscripta.biocantor.gene.transcript import TranscriptInterval

        bl = layout_blocks(2, kw)
        t1 = TranscriptInterval([bl[0][0]], [bl[0][1]], PLUS, guid=3)
        t2 = TranscriptInterval([bl[1][0]], [bl[1][1]], PLUS, guid=4)
        g = GeneInterval([t1, t2], guid=5)
        return AND(expect(g, bl[0][0], bl[1][1]), expect(t1, *bl[0]), expect(t2, *bl[1]))

    def fcoll(**kw):
        from inscripta.biocantor.gene.feature import FeatureInterval, FeatureIntervalCollection

        bl = layout_blocks(2, kw)
        t1 = FeatureInterval([bl[0][0]], [bl[0][1]], PLUS, guid=3)
        t2 = FeatureInterval([bl[1][0]], [bl[1][1]], MINUS, guid=4)
        g = FeatureIntervalCollection([t1, t2], guid=5)
        return expect(g, bl[0][0], bl[1][1])

    def variant(**kw):
        from inscripta.biocantor.gene.variants import VariantInterval, VariantIntervalCollection

        bl = layout_blocks(2, kw)
        v1 = VariantInterval(bl[0][0], bl[0][1], "A", "SNV", guid=3)
        v2 = VariantInterval(bl[1][0], bl[1][1], "AC", "insertion", guid=4)
        c = VariantIntervalCollection([v1, v2], guid=6)
        return AND(expect(v1, *bl[0]), expect(v2, *bl[1]), c.start == bl[0][0], c.end == bl[1][1])

    def chunk_parent(w, L=12):
        from inscripta.biocantor.location.location_impl import SingleInterval
        from inscripta.biocantor.parent import Parent, SequenceType
        from inscripta.biocantor.sequence import Alphabet, Sequence

        return Parent(
            id="chr1:chunk", sequence=Sequence(
                "ACGTTGCAACGT"[:L], Alphabet.NT_STRICT, type=SequenceType.SEQUENCE_CHUNK,
                parent=Parent(location=SingleInterval(w, w + L, PLUS, parent=Parent(id="chr1", sequence_type=SequenceType.CHROMOSOME)))))

    def on_chunk(kind):
        def fn(w, s0, l0):
            from inscripta.biocantor.gene.feature import FeatureInterval
            from inscripta.biocantor.gene.transcript import TranscriptInterval
            from inscripta.biocantor.gene.variants import VariantInterval

            par = chunk_parent(w)
            if kind == "transcript":
                o = TranscriptInterval([s0], [s0 + l0], MINUS, guid=3, parent_or_seq_chunk_parent=par)
            elif kind == "feature":
                o = FeatureInterval([s0], [s0 + l0], PLUS, guid=3, parent_or_seq_chunk_parent=par)
            else:
                o = VariantInterval(s0, s0 + l0, "A", "SNV", guid=3, parent_or_seq_chunk_parent=par)
            return AND(expect(o, s0, s0 + l0), o.start == s0, o.end == s0 + l0)

        return fn

    out = []
    for kind in ("transcript", "feature", "variant"):
        out.append(Obl("wiring_chunk_" + kind, on_chunk(kind), {"w": int, "s0": int, "l0": int},
                       lambda w, s0, l0: w >= 0 and l0 >= 1 and w <= s0 and s0 + l0 <= w + 12, budget=120, cost=5,
                       examples=[dict(w=131070, s0=131071, l0=3), dict(w=0, s0=2, l0=4)],
                       desc="%s built on a sequence chunk stores bin == bins(chromosome start, chromosome end, 'bed')" % kind,
                       bounds="chunk of length 12 at symbolic chromosome offset, 1 block inside the chunk", stubs=dict(bins="record")))
    params = layout_params(2)

    def pre(**kw):
        return layout_pre(2, kw, min_len=1, min_gap=1)

    ex = [dict(s0=5, l0=3, l1=4, g1=2), dict(s0=131070, l0=2, l1=4, g1=2)]
    for nm, f in [("transcript", tx), ("feature", feat), ("gene", gene), ("feature_collection", fcoll), ("variants", variant)]:
        out.append(Obl("wiring_" + nm, f, dict(params), pre, budget=120, cost=4, examples=ex,
                       desc="%s stores bin == bins(start, end, fmt='bed') of its own chromosome span" % nm,
                       bounds="2 blocks/children, unbounded coordinates", stubs=dict(bins="record")))
        out.append(Obl("wiring_exact_" + nm, f, dict(params), pre, budget=300, cost=20, examples=ex,
                       desc="%s: stored bin == bin of its own chromosome span, compared on the exact bin terms (whatever way it is computed: a bin derived from "
                            "the members' bins or from other coordinates differs for some coordinates, which the solver finds and the real bins() replays)" % nm,
                       bounds="2 blocks/children, unbounded coordinates", stubs=dict(bins="smt")))
    return out
