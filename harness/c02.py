"""C02 — Location set algebra equals position-set semantics; results are normalised."""
import harness.common  # noqa: F401  (fixes biocantor's circular import order)
from inscripta.biocantor import DistanceType
from inscripta.biocantor.exc import (
    BioCantorException,
    InvalidPositionException,
    MismatchedParentException,
)
from inscripta.biocantor.parent import Parent

from harness.common import (
    ALL, AND, ANY, IFF, ITE, MINUS, NOT, OR, PLUS, SUM, CompoundInterval, EmptyLocation, SingleInterval, Strand,
    blocks_of, layout_blocks, layout_params, layout_pre, make_location, member, mult, same_blocks, sname, total_len, wellformed,
)
from vlib.obl import Obl
from vlib.sym import concretize, untraced  # noqa
from vlib.sym import MAX, MIN

META = dict(
    functions=[
        "SingleInterval.has_overlap/_has_overlap_single_interval/intersection/_intersection_single_interval/union/"
        "_union_single_interval/union_preserve_overlaps/minus/extend_absolute/extend_relative/distance_to/"
        "_distance_to_single_interval/reverse/shift_position/optimize_blocks/gap_list",
        "CompoundInterval.has_overlap/intersection/_intersection_single_interval/_intersection_compound_interval(pure python)/"
        "union/_union_single_interval/_union_compound_interval/_merge_compound_blocks/union_preserve_overlaps/minus/"
        "gap_list/gaps_location/_combine_blocks/optimize_blocks/optimize_and_combine_blocks/merge_overlapping/"
        "extend_absolute/extend_relative/distance_to/reverse/shift_position",
        "Location.contains", "_EmptyLocation identities", "location constructors (validation against parent sequence)",
        "ObjectValidation.require_parents_equal_except_location",
    ],
    bounds=dict(
        quick="operand shapes (1,1),(2,1),(1,2) blocks; unary operations on <=3 blocks; all flag combinations; "
              "operands without parents, with equal parents, with mismatched parents; unbounded integer coordinates",
        thorough="operand shapes up to (2,2),(3,1),(1,3); unary operations on <=4 blocks (overlapping layouts <=3); unbounded ints",
    ),
    outside=">3 blocks per operand in binary operations; cgranges branch (not installed); UNSTRANDED operands except refusals; "
            "difference/containment with operands whose own blocks overlap (as the property states)",
    stubs=["S1", "S2", "S4", "S5", "S6", "S11", "S12 set.union"],
    assumptions=["position-set oracle: one symbolic probe position p per obligation (negation of 'for all p' is an existential the solver decides)",
                 "closed forms for existential sub-claims (pairwise block overlap, pairwise intersection measure) are mine"],
)


# ------------------------------------------------------------------ helpers
def _pair_overlap(a, b):
    return AND(a[0] < b[1], b[0] < a[1], a[0] < a[1], b[0] < b[1])


def overlap_spec(A, B):
    return OR(*[_pair_overlap(a, b) for a in A for b in B])


def span(A):
    return (A[0][0], A[-1][1])


def inter_measure(A, B):
    """|A n B| for operands whose own blocks are pairwise disjoint"""
    return SUM([MAX([0, MIN([a[1], b[1]]) - MAX([a[0], b[0]])]) for a in A for b in B])


def _operands(ka, kb, sa, sb, kw, pa=None, pb=None, force_a=False, force_b=False):
    A = layout_blocks(ka, kw, "a")
    B = layout_blocks(kb, kw, "b")
    la = make_location(A, sa, parent=pa, force_compound=force_a)
    lb = make_location(B, sb, parent=pb, force_compound=force_b)
    _OPERANDS.append((A, sa, pa, force_a, la))
    _OPERANDS.append((B, sb, pb, force_b, lb))
    return A, B, la, lb


_OPERANDS = []


def operands_unchanged(fn):
    """every binary obligation also asserts that the operation left both operands as they were (blocks in the same order, strand, length):
    compared with untouched twins built from the same coordinates"""

    def wrapped(**kw):
        del _OPERANDS[:]
        r = fn(**kw)
        conds = [r]
        for blocks, strand, par, force, loc in list(_OPERANDS):
            twin = make_location(blocks, strand, parent=par, force_compound=force)
            conds.append(same_blocks(blocks_of(loc), blocks_of(twin)))
            conds.append(loc.strand is strand)
            conds.append(len(loc) == len(twin))
        del _OPERANDS[:]
        return AND(*conds)

    wrapped.__name__ = getattr(fn, "__name__", "fn")
    return wrapped


def _params2(ka, kb, extra):
    p = dict(layout_params(ka, "a"))
    p.update(layout_params(kb, "b"))
    p.update(extra)
    return p


def _pre2(ka, kb, min_len=0):
    def pre(**kw):
        return layout_pre(ka, kw, "a", min_len=min_len) and layout_pre(kb, kw, "b", min_len=min_len)

    return pre


def _ex2(ka, kb, **extra):
    e = {"as0": 2, "bs0": 4}
    for i in range(ka):
        e["al%d" % i] = 4
    for i in range(1, ka):
        e["ag%d" % i] = 3
    for i in range(kb):
        e["bl%d" % i] = 5
    for i in range(1, kb):
        e["bg%d" % i] = 1
    e.update(extra)
    return e


# ------------------------------------------------------------------ binary operations
def has_overlap_fn(ka, kb, sa, sb, match_strand, full_span):
    def fn(**kw):
        A, B, la, lb = _operands(ka, kb, sa, sb, kw)
        got = la.has_overlap(lb, match_strand=match_strand, full_span=full_span)
        if full_span:
            exp = _pair_overlap(span(A), span(B))
        else:
            exp = overlap_spec(A, B)
        if match_strand and sa is not sb:
            exp = False
        p = kw["p"]
        # universal direction through the probe: no overlap reported => p is not shared
        probe = OR(got, NOT(AND(member(p, A), member(p, B)))) if not full_span and not (match_strand and sa is not sb) else True
        return AND(IFF(got, exp), probe)

    return fn


def intersection_fn(ka, kb, sa, sb, match_strand, full_span):
    def fn(**kw):
        A, B, la, lb = _operands(ka, kb, sa, sb, kw)
        p = kw["p"]
        res = la.intersection(lb, match_strand=match_strand, full_span=full_span)
        R = blocks_of(res)
        if match_strand and sa is not sb:
            return res is EmptyLocation()
        if full_span:
            sA, sB = span(A), span(B)
            want = AND(sA[0] <= p, p < sA[1], sB[0] <= p, p < sB[1],
                       _pair_overlap(sA, sB))
        else:
            want = AND(member(p, A), member(p, B))
        conds = [mult(p, R) == ITE(want, 1, 0), wellformed(res)]
        if R and res.strand is not sa:
            return False
        return AND(*conds)

    return fn


def union_fn(ka, kb, s):
    def fn(**kw):
        A, B, la, lb = _operands(ka, kb, s, s, kw)
        p = kw["p"]
        res = la.union(lb)
        R = blocks_of(res)
        want = OR(member(p, A), member(p, B))
        if not R:
            return NOT(want)
        conds = [mult(p, R) == ITE(want, 1, 0), res.strand is s, len(res) == total_len(R)]
        for (s1, e1), (s2, e2) in zip(R, R[1:]):
            conds.append(AND(s1 <= s2, e1 <= s2))
        return AND(*conds)

    return fn


def union_strand_mismatch_fn(ka, kb):
    def fn(**kw):
        A, B, la, lb = _operands(ka, kb, PLUS, MINUS, kw)
        try:
            la.union(lb)
        except (ValueError, BioCantorException):
            return True
        return False

    return fn


def union_preserve_fn(ka, kb, s):
    def fn(**kw):
        A, B, la, lb = _operands(ka, kb, s, s, kw)
        p = kw["p"]
        res = la.union_preserve_overlaps(lb)
        R = blocks_of(res)
        conds = [mult(p, R) == mult(p, A) + mult(p, B), wellformed(res, allow_overlap=True)]
        if R:
            conds.append(res.strand is s)
        return AND(*conds)

    return fn


def minus_fn(ka, kb, sa, sb, match_strand):
    def fn(**kw):
        A, B, la, lb = _operands(ka, kb, sa, sb, kw)
        p = kw["p"]
        res = la.minus(lb, match_strand=match_strand)
        R = blocks_of(res)
        if match_strand and sa is not sb:
            want = member(p, A)
        else:
            want = AND(member(p, A), NOT(member(p, B)))
        conds = [mult(p, R) == ITE(want, 1, 0)]
        if R:
            conds.append(res.strand is sa)
            # normalised whenever something was actually removed or the operand is compound
            for (s1, e1), (s2, e2) in zip(R, R[1:]):
                conds.append(AND(s1 <= s2, e1 <= s2))
            if type(res) is CompoundInterval:
                conds.append(wellformed(res))
        return AND(*conds)

    return fn


def contains_fn(ka, kb, sa, sb, match_strand, full_span):
    def fn(**kw):
        A, B, la, lb = _operands(ka, kb, sa, sb, kw)
        p = kw["p"]
        got = la.contains(lb, match_strand=match_strand, full_span=full_span)
        if match_strand and sa is not sb:
            return NOT(got)
        if full_span:
            sA, sB = span(A), span(B)
            exp = AND(_pair_overlap(sA, sB), sA[0] <= sB[0], sB[1] <= sA[1])
            return IFF(got, exp)
        exp = AND(overlap_spec(A, B), inter_measure(A, B) == total_len(B))
        return AND(IFF(got, exp), OR(NOT(got), NOT(member(p, B)), member(p, A)))

    return fn


def distance_fn(ka, kb, sa, sb, dtype):
    def fn(**kw):
        A, B, la, lb = _operands(ka, kb, sa, sb, kw)
        got = la.distance_to(lb, dtype)

        def ab(x):
            return ITE(x < 0, -x, x)

        sA, sB = span(A), span(B)
        if dtype is DistanceType.STARTS:
            exp = ab(sA[0] - sB[0])
        elif dtype is DistanceType.ENDS:
            exp = ab(sA[1] - sB[1])
        elif dtype is DistanceType.OUTER:
            exp = MAX([ab(sA[0] - sB[1]), ab(sA[1] - sB[0])])
        else:
            ds = []
            for a in A:
                for b in B:
                    ds.append(ITE(_pair_overlap(a, b), 0, MIN([ab(a[0] - b[1]), ab(a[1] - b[0])])))
            exp = MIN(ds)
        return got == exp

    return fn


def parent_flags_fn(kind, strict):
    """parent matching: kind in none/same/mismatch/one_none"""

    def fn(**kw):
        if kind.startswith("mismatch_") or kind == "same_seq":
            from inscripta.biocantor.parent import SequenceType
            from inscripta.biocantor.sequence import Alphabet, Sequence

            sq = lambda txt: Sequence(txt, Alphabet.NT_STRICT)  # noqa: E731
            pa, pb = {
                # same id and type, but only one parent / neither parent carries the same sequence: NOT the same coordinate system
                "mismatch_seq": (Parent(id="chrA", sequence=sq("ACGT" * 8)), Parent(id="chrA")),
                "mismatch_seq_rev": (Parent(id="chrA"), Parent(id="chrA", sequence=sq("ACGT" * 8))),
                "mismatch_seq2": (Parent(id="chrA", sequence=sq("ACGT" * 8)), Parent(id="chrA", sequence=sq("TTGA" * 8))),
                "mismatch_type": (Parent(id="chrA", sequence_type=SequenceType.CHROMOSOME), Parent(id="chrA", sequence_type="plasmid")),
                "mismatch_grandparent": (Parent(id="chrA", parent=Parent(id="asm1")), Parent(id="chrA", parent=Parent(id="asm2"))),
                # the same names at every level, but the system sits at a DIFFERENT PLACE (or strand) on its own parent: two different coordinate systems
                "mismatch_placement": (Parent(id="win", sequence_type="region", parent=Parent(id="chrA", sequence_type=SequenceType.CHROMOSOME,
                                                                                                location=SingleInterval(100, 200, PLUS))),
                                       Parent(id="win", sequence_type="region", parent=Parent(id="chrA", sequence_type=SequenceType.CHROMOSOME,
                                                                                                location=SingleInterval(500, 600, PLUS)))),
                "mismatch_placement_strand": (Parent(id="win", sequence_type="region", parent=Parent(id="chrA", sequence_type=SequenceType.CHROMOSOME,
                                                                                                       location=SingleInterval(100, 200, PLUS))),
                                              Parent(id="win", sequence_type="region", parent=Parent(id="chrA", sequence_type=SequenceType.CHROMOSOME,
                                                                                                       location=SingleInterval(100, 200, MINUS)))),
                "same_seq": (Parent(id="chrA", sequence=sq("ACGT" * 8)), Parent(id="chrA", sequence=sq("ACGT" * 8))),
            }[kind]
        else:
            pa = {"none": None, "same": Parent(id="chrA"), "mismatch": Parent(id="chrA"), "one_none": Parent(id="chrA")}[kind]
            pb = {"none": None, "same": Parent(id="chrA"), "mismatch": Parent(id="chrB"), "one_none": None}[kind]
        A, B, la, lb = _operands(1, 1, PLUS, PLUS, kw, pa, pb)
        p = kw["p"]
        comparable = kind in ("none", "same", "same_seq")
        try:
            ov = la.has_overlap(lb, strict_parent_compare=strict)
            it = la.intersection(lb, strict_parent_compare=strict)
            mi = la.minus(lb, strict_parent_compare=strict)
            co = la.contains(lb, strict_parent_compare=strict)
        except MismatchedParentException:
            return strict and not comparable
        if strict and not comparable:
            return False
        if not comparable:
            # documented: mismatched parents => no overlap / empty intersection / unchanged difference
            return AND(NOT(ov), it is EmptyLocation(), NOT(co), mult(p, blocks_of(mi)) == mult(p, A))
        R = blocks_of(it)
        ok_parent = True
        if R and kind in ("same", "same_seq"):
            ok_parent = it.parent is not None and it.parent.id == "chrA"
        return AND(IFF(ov, overlap_spec(A, B)), mult(p, R) == ITE(AND(member(p, A), member(p, B)), 1, 0), ok_parent)

    return fn


def many_blocks_fn(k, strand, op):
    """one operand with MANY blocks (common symbolic length and gap, one block longer by a symbolic amount) against a single interval: size-dependent
    code paths (bisecting sorted starts/ends, early exits in block scans) start only at some block count"""

    def fn(s0, L, G, x, bs, bl, p):
        A, cur = [], s0
        for i in range(k):
            n = L + (x if i == k // 3 else 0)
            A.append((cur, cur + n))
            cur = cur + n + G
        B = [(bs, bs + bl)]
        la = make_location(A, strand, force_compound=True)
        lb = make_location(B, strand)
        inA, inB = member(p, A), member(p, B)
        if op == "intersection":
            res = la.intersection(lb)
            return AND(mult(p, blocks_of(res)) == ITE(AND(inA, inB), 1, 0), wellformed(res))
        if op == "intersection_rev":
            res = lb.intersection(la)
            return AND(mult(p, blocks_of(res)) == ITE(AND(inA, inB), 1, 0), wellformed(res))
        if op == "minus":
            res = la.minus(lb)
            return mult(p, blocks_of(res)) == ITE(AND(inA, NOT(inB)), 1, 0)
        if op == "union":
            res = la.union(lb)
            return AND(mult(p, blocks_of(res)) == ITE(OR(inA, inB), 1, 0), wellformed(res))
        if op == "has_overlap":
            return AND(IFF(la.has_overlap(lb), overlap_spec(A, B)), IFF(lb.has_overlap(la), overlap_spec(A, B)))
        if op == "contains":
            return IFF(la.contains(lb), AND(overlap_spec(A, B), inter_measure(A, B) == total_len(B)))
        raise KeyError(op)

    return fn


def contains_overlapping_fn(sa, sb):
    """contains() / intersection() with operands whose OWN blocks may overlap, nest or share a start (lengths count such positions more than once): contains is
    True exactly when every position of the other location is a position of this one. Realised leg, position sets computed natively."""

    def fn(**kw):
        names = sorted(kw)
        vals = concretize(*[kw[n] for n in names])
        kw = dict(zip(names, vals if isinstance(vals, list) else [vals]))
        with untraced():
            return bool(body(**kw))

    def body(s0, l0, g1, l1, t0, m0, h1, m1):
        A = [(s0, s0 + l0), (s0 + l0 + g1, s0 + l0 + g1 + l1)]
        B = [(t0, t0 + m0), (t0 + m0 + h1, t0 + m0 + h1 + m1)]
        la, lb = make_location(A, sa, force_compound=True), make_location(B, sb, force_compound=True)
        pa = {q for a, b in A for q in range(a, b)}
        pb = {q for a, b in B for q in range(a, b)}
        want = bool(pb) and pb <= pa
        ok = la.contains(lb, match_strand=False) is want and la.contains(lb, match_strand=True) is (want and sa is sb)
        res = la.intersection(lb, match_strand=False)
        ok = ok and {q for a, b in blocks_of(res) for q in range(a, b)} == (pa & pb)
        for op, want_pos in ((lambda: la.minus(lb, match_strand=False), pa - pb), (lambda: lb.minus(la, match_strand=False), pb - pa),
                             (lambda: la.union(lb) if sa is sb else la, (pa | pb) if sa is sb else pa)):
            ok = ok and {q for a, b in blocks_of(op()) for q in range(a, b)} == want_pos
        return ok and la.has_overlap(lb, match_strand=False) is bool(pa & pb)

    return fn


def overlap_history_fn(sa, sb):
    """the same questions asked of ONE compound location in a row - block-level about B, span-level about C, block-level about C, and the set operations that
    ask them internally: every answer is the one a fresh twin gives (a remembered last answer must be keyed on the whole question)"""

    def fn(s0, l0, g1, l1, bs, bl, cs, cl, m1, m3):
        A = [(s0, s0 + l0), (s0 + l0 + g1, s0 + l0 + g1 + l1)]
        a = make_location(A, sa, force_compound=True)
        B, C = [(bs, bs + bl)], [(cs, cs + cl)]
        b, c = make_location(B, sb), make_location(C, sb)
        same = sa is sb
        span = [(A[0][0], A[1][1])]
        r1 = a.has_overlap(b, match_strand=m1)
        r2 = a.has_overlap(c, match_strand=m3, full_span=True)
        r3 = a.has_overlap(c, match_strand=m3)
        conds = [IFF(r1, AND(overlap_spec(A, B), same or not m1)), IFF(r2, AND(overlap_spec(span, C), same or not m3)), IFF(r3, AND(overlap_spec(A, C), same or not m3))]
        # ... and the operations that ask the same question internally, afterwards
        res = a.intersection(c, match_strand=m3)
        p = cs
        conds.append(mult(p, blocks_of(res)) == ITE(AND(member(p, A), same or not m3), 1, 0))
        d = a.minus(c, match_strand=m3)
        conds.append(mult(p, blocks_of(d)) == ITE(AND(member(p, A), NOT(AND(same or not m3, True))), 1, 0))
        return AND(*conds)

    return fn


def many_many_fn(k, sa, sb, op):
    """BOTH operands with many blocks (k x k block pairs; common length and gap each, one block of each operand shorter or longer - down to a ZERO-length
    block, which overlaps nothing). Realised leg: the solver enumerates the layouts, the body runs natively and compares position sets."""

    def fn(**kw):
        names = sorted(kw)
        vals = concretize(*[kw[n] for n in names])
        kw = dict(zip(names, vals if isinstance(vals, list) else [vals]))
        with untraced():
            return bool(body(**kw))

    def body(P, La, Lb, bs, d, e, at):
        e = e if e <= 1 else P + e  # e >= 2: a block long enough to OVERLAP the next block of its own operand
        # both operands periodic with period P (so that they can interleave without sharing a position); block `at` of A is replaced by a block of length e
        # (0 = empty) placed d bases into its period
        A = [(P * i, P * i + La) for i in range(k)]
        A[at] = (P * at + d, P * at + d + e)
        B = [(bs + P * i, bs + P * i + Lb) for i in range(k)]
        la, lb = make_location(A, sa, force_compound=True), make_location(B, sb, force_compound=True)
        pa = {q for a, b in A for q in range(a, b)}
        pb = {q for a, b in B for q in range(a, b)}
        same = sa is sb
        ov = bool(pa & pb)
        if op == "has_overlap":
            return (la.has_overlap(lb, match_strand=False) is ov and lb.has_overlap(la, match_strand=False) is ov
                    and la.has_overlap(lb, match_strand=True) is (same and ov) and la.has_overlap(lb, match_strand=False, full_span=True) is (
                        max(A[0][0], B[0][0]) < min(A[-1][1], B[-1][1])))
        if op == "intersection":
            res = la.intersection(lb, match_strand=False)
            got = sorted(q for a, b in blocks_of(res) for q in range(a, b))
            return sorted(set(got)) == sorted(pa & pb) and (len(got) == len(set(got)) or any(x[1] > y[0] for x, y in zip(A, A[1:]))) and bool(wellformed(res, allow_overlap=True))
        if op == "contains":
            return la.contains(lb, match_strand=False) is (bool(pb) and pb <= pa)
        raise KeyError(op)

    return fn


# ------------------------------------------------------------------ unary operations
def _unary_params(k, extra):
    p = dict(layout_params(k))
    p.update(extra)
    return p


def gaps_fn(k, s, signed=False):
    def fn(**kw):
        A = layout_blocks(k, kw)
        la = make_location(A, s, force_compound=True)
        p = kw["p"]
        g = la.gaps_location()
        G = blocks_of(g)
        # gaps are measured between NON-EMPTY blocks: p lies at or after some non-empty block's start, before some non-empty block's end, in no block
        # (valid for nested / overlapping layouts too: the gaps are span minus covered positions)
        ne = [a[0] < a[1] for a in A]
        want = AND(OR(*[AND(n, a[0] <= p) for a, n in zip(A, ne)]), OR(*[AND(n, p < a[1]) for a, n in zip(A, ne)]), NOT(member(p, A)))
        conds = [mult(p, G) == ITE(want, 1, 0)]
        gl = la.gap_list()
        conds.append(len(gl) == len(G) if not G else True)
        if G:
            conds.append(g.strand is s)
        return AND(*conds)

    return fn


def optimize_fn(k, s, combine):
    """optimize_blocks (preserve overlappers) / optimize_and_combine_blocks / merge_overlapping on signed-gap layouts"""

    def fn(**kw):
        A = layout_blocks(k, kw)
        la = make_location(A, s, force_compound=True)
        p = kw["p"]
        if combine == "optimize":
            res = la.optimize_blocks()
            R = blocks_of(res)
            return AND(mult(p, R) == mult(p, A), wellformed(res, allow_overlap=True))
        if combine == "combine":
            res = la.optimize_and_combine_blocks()
            R = blocks_of(res)
            return AND(mult(p, R) == ITE(member(p, A), 1, 0), wellformed(res))
        if combine.startswith("derived"):
            # the questions are asked of a location RETURNED by a normaliser / set operation (rebuilt objects must not carry a stale overlap flag)
            far = SingleInterval(A[-1][1] + MAX([a[1] for a in A]) + 7, A[-1][1] + MAX([a[1] for a in A]) + 9, s)
            der = {"derived_optimize": lambda: la.optimize_blocks(), "derived_minus": lambda: la.minus(far),
                   "derived_union": lambda: la.union_preserve_overlaps(far)}[combine]()
            D = blocks_of(der)
            if type(der) is not CompoundInterval:
                extra = ITE(AND(far.start <= p, p < far.end), 1, 0) if combine == "derived_union" else 0  # the union also holds the far-away operand
                return AND(mult(p, D) == mult(p, A) + extra, NOT(der.is_overlapping))
            spec_ov = OR(*[AND(D[i][0] < D[j][1], D[j][0] < D[i][1]) for i in range(len(D)) for j in range(i + 1, len(D))]) if len(D) > 1 else False
            conds = [IFF(der.is_overlapping, spec_ov)]
            R = blocks_of(der.merge_overlapping())
            conds.append(mult(p, R) == ITE(member(p, D), 1, 0))
            for (s1, e1), (s2, e2) in zip(R, R[1:]):
                conds.append(AND(s1 <= s2, e1 <= s2))
            conds.append(mult(p, blocks_of(der.optimize_and_combine_blocks())) == ITE(member(p, D), 1, 0))
            return AND(*conds)
        res = la.merge_overlapping()
        R = blocks_of(res)
        conds = [mult(p, R) == ITE(member(p, A), 1, 0) if la.is_overlapping else mult(p, R) == mult(p, A)]
        for (s1, e1), (s2, e2) in zip(R, R[1:]):
            conds.append(AND(s1 <= s2, e1 <= s2))
        return AND(*conds)

    return fn


def extend_fn(k, s, relative):
    def fn(**kw):
        A = layout_blocks(k, kw)
        la = make_location(A, s)
        p, x, y = kw["p"], kw["x"], kw["y"]
        lo, hi = A[0][0], A[-1][1]
        if relative:
            left, right = (x, y) if s is PLUS else (y, x)
        else:
            left, right = x, y
        try:
            res = la.extend_relative(x, y) if relative else la.extend_absolute(x, y)
        except ValueError:
            return OR(x < 0, y < 0)
        except InvalidPositionException:
            return lo - left < 0
        R = blocks_of(res)
        want = OR(member(p, A), AND(lo - left <= p, p < lo), AND(hi <= p, p < hi + right))
        conds = [x >= 0, y >= 0, lo - left >= 0, OR(IFF(mult(p, R) >= 1, want), False)]
        conds.append(mult(p, R) <= 1)
        if R:
            conds.append(res.strand is s)
        return AND(*conds)

    return fn


def reverse_fn(k, s):
    def fn(**kw):
        A = layout_blocks(k, kw)
        la = make_location(A, s)
        p = kw["p"]
        res = la.reverse()
        R = blocks_of(res)
        if k == 1:
            return AND(mult(p, R) == mult(p, A), res.strand is s.reverse())
        lo, hi = A[0][0], A[-1][1]
        mirror = lo + hi - 1 - p
        return AND(mult(p, R) == mult(mirror, A), res.strand is s.reverse(), res.start == lo, res.end == hi)

    return fn


def shift_fn(k, s):
    def fn(**kw):
        A = layout_blocks(k, kw)
        la = make_location(A, s)
        p, d = kw["p"], kw["d"]
        try:
            res = la.shift_position(d)
        except InvalidPositionException:
            return A[0][0] + d < 0
        R = blocks_of(res)
        return AND(A[0][0] + d >= 0, mult(p, R) == mult(p - d, A), res.strand is s, len(R) == len(A))

    return fn


def ctor_parent_seq_fn(k, s, N):
    """constructor validation against a parent sequence of length N"""
    from inscripta.biocantor.sequence import Alphabet, Sequence

    def fn(**kw):
        A = layout_blocks(k, kw)
        seq = Sequence("ACGT" * (N // 4) + "ACGT"[: N % 4], Alphabet.NT_STRICT)
        par = Parent(id="chr", sequence=seq)
        try:
            la = make_location(A, s, parent=par)
            if k > 1:
                la.blocks  # force bounds check of blocks (lazy)
        except InvalidPositionException:
            return A[-1][1] > N
        return AND(A[-1][1] <= N, la.parent.sequence is not None)

    return fn


def empty_identities_fn(k, s):
    def fn(**kw):
        A = layout_blocks(k, kw)
        la = make_location(A, s)
        E = EmptyLocation()
        c = [E.intersection(la) is E, E.minus(la) is E, NOT(E.has_overlap(la)), len(E) == 0, E.is_empty,
             NOT(la.has_overlap(E)) if False else True, E.optimize_blocks() is E, E.reverse() is E,
             E.gaps_location() is E, E.merge_overlapping() is E, E.num_blocks == 0, E.blocks == []]
        return AND(*c)

    return fn


# ------------------------------------------------------------------ catalogue
COST2 = {(1, 1): 3, (2, 1): 15, (1, 2): 15, (2, 2): 150, (3, 1): 60, (1, 3): 60}


def obligations(tier):
    out = []
    quick = tier == "quick"
    shapes = [(1, 1), (2, 1), (1, 2)] if quick else [(1, 1), (2, 1), (1, 2), (2, 2), (3, 1), (1, 3)]
    strand_pairs = [(PLUS, PLUS), (PLUS, MINUS)] if quick else [(PLUS, PLUS), (PLUS, MINUS), (MINUS, PLUS), (MINUS, MINUS)]
    for ka, kb in shapes:
        c = COST2[(ka, kb)]
        bud = c * 5 + 60
        bnd = "operands %d x %d blocks, lengths>=0, gaps>=0, unbounded ints" % (ka, kb)
        P = _params2(ka, kb, {"p": int})
        pre = _pre2(ka, kb)
        ex = [_ex2(ka, kb, p=5), _ex2(ka, kb, p=0)]
        for sa, sb in strand_pairs:
            st = "%s_%s" % (sname(sa), sname(sb))
            for ms in (False, True):
                if ms and sa is not sb and (ka, kb) != (1, 1) and quick:
                    continue  # trivial early exit; covered on (1,1)
                for fs in (False, True):
                    tag = "%dx%d_%s_ms%d_fs%d" % (ka, kb, st, ms, fs)
                    out.append(Obl("has_overlap_" + tag, has_overlap_fn(ka, kb, sa, sb, ms, fs), P, pre, budget=bud, cost=c,
                                   desc="has_overlap == exists shared position (pairwise closed form; probe p for the universal half); flags honoured",
                                   bounds=bnd, examples=ex))
                    out.append(Obl("intersection_" + tag, intersection_fn(ka, kb, sa, sb, ms, fs), P, pre, budget=bud, cost=c,
                                   desc="p in intersection <=> p in A and p in B (spans when full_span); strand of self; result normalised",
                                   bounds=bnd, examples=ex))
                    out.append(Obl("contains_" + tag, contains_fn(ka, kb, sa, sb, ms, fs), P, pre, budget=bud, cost=c,
                                   desc="contains <=> operands overlap and |A n B| == |B| (spans when full_span); probe: contained => every p of B in A",
                                   bounds=bnd, examples=ex))
                tag = "%dx%d_%s_ms%d" % (ka, kb, st, ms)
                if not (ms and sa is not sb and (ka, kb) != (1, 1) and quick):
                    out.append(Obl("minus_" + tag, minus_fn(ka, kb, sa, sb, ms), P, pre, budget=bud, cost=c,
                                   desc="p in (A minus B) <=> p in A and p not in B (A unchanged when strands must match and differ); strand of self; blocks sorted, disjoint",
                                   bounds=bnd, examples=ex))
        for s in (PLUS, MINUS):
            tag = "%dx%d_%s" % (ka, kb, sname(s))
            out.append(Obl("union_" + tag, union_fn(ka, kb, s), P, pre, budget=bud, cost=c,
                           desc="p in union <=> p in A or p in B, each position once; blocks sorted and disjoint", bounds=bnd, examples=ex))
            out.append(Obl("union_preserve_" + tag, union_preserve_fn(ka, kb, s), P, pre, budget=bud, cost=c,
                           desc="union_preserve_overlaps keeps multiplicities: mult(p,R) == mult(p,A)+mult(p,B); no empty/adjacent blocks",
                           bounds=bnd, examples=ex))
        if (ka, kb) == (1, 1) or not quick:
            out.append(Obl("union_strand_mismatch_%dx%d" % (ka, kb), union_strand_mismatch_fn(ka, kb), _params2(ka, kb, {}), pre,
                           budget=bud, cost=c, desc="union of different strands is refused", bounds=bnd,
                           examples=[_ex2(ka, kb)]))
        P2 = _params2(ka, kb, {})
        pre1 = _pre2(ka, kb)
        for dt in DistanceType:
            sps = [(PLUS, PLUS)] if quick else [(PLUS, PLUS), (MINUS, PLUS)]
            for sa, sb in sps:
                out.append(Obl("distance_%s_%dx%d_%s_%s" % (dt.name, ka, kb, sname(sa), sname(sb)),
                               distance_fn(ka, kb, sa, sb, dt), P2, pre1, budget=bud, cost=c,
                               desc="distance_to(%s) equals the documented closed form of the end points" % dt.name,
                               bounds=bnd, examples=[_ex2(ka, kb)]))
    if quick:
        # cheap extras beyond the quick shape bound: full_span comparisons only look at spans (few paths even for 2x2),
        # INNER distance on 3x2 blocks
        P = _params2(2, 2, {"p": int})
        pre = _pre2(2, 2)
        ex = [_ex2(2, 2, p=5)]
        bnd = "operands 2 x 2 blocks, lengths>=0, gaps>=0, unbounded ints"
        for sa, sb in ((PLUS, PLUS), (PLUS, MINUS)):
            st = "%s_%s" % (sname(sa), sname(sb))
            for ms in (False, True):
                tag = "2x2_%s_ms%d_fs1" % (st, ms)
                out.append(Obl("has_overlap_" + tag, has_overlap_fn(2, 2, sa, sb, ms, True), P, pre, budget=300, cost=20,
                               desc="has_overlap(full_span) == spans overlap", bounds=bnd, examples=ex))
                out.append(Obl("intersection_" + tag, intersection_fn(2, 2, sa, sb, ms, True), P, pre, budget=300, cost=20,
                               desc="intersection(full_span): p in result <=> p in both spans", bounds=bnd, examples=ex))
                out.append(Obl("contains_" + tag, contains_fn(2, 2, sa, sb, ms, True), P, pre, budget=300, cost=20,
                               desc="contains(full_span) <=> span(A) contains span(B)", bounds=bnd, examples=ex))
        for ka, kb in ((3, 2), (2, 3), (2, 2)):
            out.append(Obl("distance_INNER_%dx%d_plus_plus" % (ka, kb), distance_fn(ka, kb, PLUS, PLUS, DistanceType.INNER),
                           _params2(ka, kb, {}), _pre2(ka, kb, min_len=1), budget=400, cost=60,
                           desc="distance_to(INNER) == min over block pairs (0 when overlapping)",
                           bounds="operands %d x %d non-empty blocks, unbounded ints" % (ka, kb), examples=[_ex2(ka, kb)]))
    # parent flags
    P = _params2(1, 1, {"p": int})
    for kind in ("none", "same", "mismatch", "one_none"):
        for strict in (False, True):
            out.append(Obl("parents_%s_strict%d" % (kind, strict), parent_flags_fn(kind, strict), P, _pre2(1, 1), budget=120, cost=4,
                           desc="parent matching: mismatched parents => no overlap/empty intersection/unchanged difference, or MismatchedParentException when strict",
                           bounds="1x1 blocks, parents by id", examples=[_ex2(1, 1, p=5)]))
    for kind in ("mismatch_seq", "mismatch_seq_rev", "mismatch_seq2", "mismatch_type", "mismatch_grandparent", "mismatch_placement", "mismatch_placement_strand", "same_seq"):
        for strict in (False, True):
            if quick and strict and kind not in ("mismatch_seq", "same_seq", "mismatch_placement"):
                continue
            out.append(Obl("parents_%s_strict%d" % (kind, strict), parent_flags_fn(kind, strict), P,
                           (lambda base: (lambda **kw: base(**kw) and kw["as0"] + kw["al0"] <= 32 and kw["bs0"] + kw["bl0"] <= 32))(_pre2(1, 1)), budget=120, cost=4,
                           desc="parent matching beyond the id: parents with the same id but a different sequence (or one without sequence), sequence type or grand-parent "
                                "are different coordinate systems => no overlap/empty intersection/unchanged difference (MismatchedParentException when strict); equal "
                                "sequence-bearing parents behave as one coordinate system",
                           bounds="1x1 blocks within a 32-nt parent sequence", examples=[_ex2(1, 1, p=5)]))
    # unary
    ks = [1, 2, 3] if quick else [1, 2, 3, 4]
    for s in (PLUS, MINUS):
        sn = sname(s)
        for k in ks:
            bnd = "k=%d blocks, lengths>=0, gaps>=0, unbounded ints" % k
            cu = [1, 3, 10, 40][k - 1]
            bud = cu * 6 + 60

            def pre(k=k, **kw):
                return layout_pre(k, kw)

            ex = {"s0": 3, "p": 6}
            for i in range(k):
                ex["l%d" % i] = 2
            for i in range(1, k):
                ex["g%d" % i] = 2
            if k >= 2:
                out.append(Obl("gaps_k%d_%s" % (k, sn), gaps_fn(k, s), _unary_params(k, {"p": int}), pre, budget=bud, cost=cu,
                               desc="p in gaps_location <=> p between the first and last non-empty block and in no block", bounds=bnd, examples=[ex]))
            for mode in ("optimize", "combine", "merge"):
                if k == 1:
                    continue
                out.append(Obl("%s_k%d_%s" % (mode, k, sn), optimize_fn(k, s, mode), _unary_params(k, {"p": int}), pre,
                               budget=bud, cost=cu, desc="%s keeps the covered positions (multiplicities for optimize_blocks) and returns normalised blocks" % mode,
                               bounds=bnd, examples=[ex]))
            for rel in (False, True):
                e2 = dict(ex, x=1, y=2)
                out.append(Obl("extend_%s_k%d_%s" % ("rel" if rel else "abs", k, sn), extend_fn(k, s, rel),
                               _unary_params(k, {"p": int, "x": int, "y": int}), pre, budget=bud * 2, cost=cu * 3,
                               desc="extend_%s adds exactly the flanks; negative distances / start below 0 refused" % ("relative" if rel else "absolute"),
                               bounds=bnd, examples=[e2, dict(e2, x=-1), dict(e2, x=50)]))
            out.append(Obl("reverse_k%d_%s" % (k, sn), reverse_fn(k, s), _unary_params(k, {"p": int}), pre, budget=bud, cost=cu,
                           desc="reverse mirrors the blocks inside the span and flips the strand", bounds=bnd, examples=[ex]))
            out.append(Obl("shift_k%d_%s" % (k, sn), shift_fn(k, s), _unary_params(k, {"p": int, "d": int}), pre, budget=bud, cost=cu,
                           desc="shift_position translates every block; negative results refused", bounds=bnd,
                           examples=[dict(ex, d=2), dict(ex, d=-10)]))
            if k <= 2:
                out.append(Obl("ctor_parent_seq_k%d_%s" % (k, sn), ctor_parent_seq_fn(k, s, 10), _unary_params(k, {}), pre,
                               budget=bud, cost=cu + 2, desc="constructor refuses coordinates beyond the parent sequence (N=10), accepts all others",
                               bounds=bnd + "; parent sequence length 10", examples=[{k2: v for k2, v in ex.items() if k2 != "p"}]))
        out.append(Obl("empty_identities_%s" % sn, empty_identities_fn(2, s), _unary_params(2, {}), lambda **kw: layout_pre(2, kw),
                       budget=60, cost=2, desc="EmptyLocation identities: absorbing for intersection/minus, never overlaps, normalisers return it",
                       bounds="2-block operand", examples=[dict(s0=1, l0=2, l1=2, g1=1)]))
    if True:
        # overlapping (signed-gap) layouts for the normalisers and the gap computation (k=2 in the quick tier, k=3 in thorough)
        for s in (PLUS, MINUS):
            for k in ((2,) if quick else (2, 3)):
                def pre(k=k, **kw):
                    if not kw["s0"] >= 0:
                        return False
                    for i in range(k):
                        if not kw["l%d" % i] >= 0:
                            return False
                    for st, en in layout_blocks(k, kw):
                        if not st >= 0:
                            return False
                    return True

                ex = {"s0": 5, "p": 6, "l0": 6, "l1": 4, "g1": -3}
                if k == 3:
                    ex.update(l2=3, g2=-2)
                for mode in ("optimize", "combine", "merge"):
                    out.append(Obl("%s_overlapping_k%d_%s" % (mode, k, sname(s)), optimize_fn(k, s, mode),
                                   _unary_params(k, {"p": int}), pre, budget=600, cost=60,
                                   desc="%s on overlapping/nested layouts (signed gaps)" % mode,
                                   bounds="k=%d blocks, signed gaps, unbounded ints" % k, examples=[ex]))
                for mode in (("derived_optimize",) if quick else ("derived_optimize", "derived_minus", "derived_union")):
                    if k == 2 and not quick:
                        continue
                    kk = 3
                    ex3 = {"s0": 0, "p": 12, "l0": 10, "l1": 10, "g1": -5, "l2": 5, "g2": 0}
                    out.append(Obl("%s_overlapping_k3_%s" % (mode, sname(s)), optimize_fn(kk, s, mode), _unary_params(kk, {"p": int}),
                                   (lambda **kw: kw["s0"] >= 0 and all(kw["l%d" % i] >= 0 for i in range(3)) and all(st >= 0 for st, en in layout_blocks(3, kw))),
                                   budget=900, cost=120,
                                   desc="location RETURNED by %s on overlapping / nested / abutting / empty blocks: is_overlapping, merge_overlapping and "
                                        "optimize_and_combine_blocks answer for the blocks it actually has" % mode.split("_")[1],
                                   bounds="k=3 blocks, signed gaps, unbounded ints", examples=[ex3, dict(ex3, l2=0, g2=3), dict(ex3, g1=2)]))
                out.append(Obl("gaps_overlapping_k%d_%s" % (k, sname(s)), gaps_fn(k, s, signed=True), _unary_params(k, {"p": int}), pre, budget=600, cost=30,
                               desc="gaps_location on overlapping/nested layouts: p in gaps <=> inside the span of the non-empty blocks and covered by no block",
                               bounds="k=%d blocks, signed gaps, unbounded ints" % k, examples=[ex, dict(ex, l0=40, l1=3, g1=-30, p=20)]))
    for s in (PLUS, MINUS):
        for op in ("intersection", "intersection_rev", "minus", "union", "has_overlap", "contains"):
            if quick and op != "has_overlap":
                continue  # ~1000 paths each: thorough tier
            out.append(Obl("%s_many_k17_%s" % (op, sname(s)), many_blocks_fn(17, s, op), dict(s0=int, L=int, G=int, x=int, bs=int, bl=int, p=int),
                           lambda s0, L, G, x, bs, bl, p: s0 >= 0 and L >= 1 and G >= 1 and x >= 0 and bs >= 0 and bl >= 1, budget=3600 if op != "has_overlap" else 900,
                           cost=900 if op != "has_overlap" else 60,
                           desc="%s of a 17-block location (common symbolic block length/gap, one longer block) and a single interval equals position-set semantics" % op,
                           bounds="17 x 1 blocks, unbounded symbolic start/length/gap/extra/interval/probe",
                           examples=[dict(s0=100, L=7, G=3, x=2, bs=118, bl=40, p=130), dict(s0=0, L=1, G=1, x=0, bs=5, bl=1, p=5)]))
    for sa, sb in ((PLUS, PLUS), (MINUS, PLUS)):
        out.append(Obl("contains_overlapping_operands_%s_%s" % (sname(sa), sname(sb)), contains_overlapping_fn(sa, sb),
                       dict(s0=int, l0=int, g1=int, l1=int, t0=int, m0=int, h1=int, m1=int),
                       lambda s0, l0, g1, l1, t0, m0, h1, m1: s0 == 1 and (l0 == 2 or l0 == 4) and -4 <= g1 and g1 <= 1 and g1 != -3 and (l1 == 1 or l1 == 3) and s0 + l0 + g1 >= 0
                       and 0 <= t0 and t0 <= 4 and (m0 == 1 or m0 == 3) and (h1 == -2 or h1 == 0 or h1 == 1) and (m1 == 0 or m1 == 2) and t0 + m0 + h1 >= 0,
                       budget=900, cost=120,
                       desc="contains() / intersection() / minus() / union() / has_overlap() when the blocks of either operand overlap, nest or share a start: position-set semantics; contains is True exactly when "
                            "every position of the other location is covered (a position covered by two blocks counts once)",
                       bounds="2 x 2 blocks: lengths {2,4} x {1,3} with the second starting 4..-1 before / at / after the first's end, other operand lengths {1,3} x {0,2} "
                              "starting at 0..4 with signed gap {-2,0,1} (realised)",
                       examples=[dict(s0=1, l0=4, g1=-2, l1=1, t0=0, m0=1, h1=1, m1=2), dict(s0=1, l0=4, g1=-4, l1=3, t0=2, m0=1, h1=0, m1=2)]))
    for sa, sb in ((PLUS, PLUS), (PLUS, MINUS)):
        out.append(Obl("has_overlap_three_call_history_%s_%s" % (sname(sa), sname(sb)), overlap_history_fn(sa, sb),
                       dict(s0=int, l0=int, g1=int, l1=int, bs=int, bl=int, cs=int, cl=int, m1=bool, m3=bool),
                       lambda s0, l0, g1, l1, bs, bl, cs, cl, m1, m3: s0 >= 0 and l0 >= 1 and g1 >= 1 and l1 >= 1 and bs >= 0 and bl >= 1 and cs >= 0 and cl >= 1,
                       budget=900, cost=90,
                       desc="three questions in a row on one 2-block location - block-level overlap with B, SPAN-level overlap with C, block-level overlap with C - and then "
                            "intersection and minus with C: each answer is the position-set one (C inside the intron: span-level yes, block-level no)",
                       bounds="2-block location, two single-interval operands, unbounded symbolic coordinates, both match_strand values each",
                       examples=[dict(s0=10, l0=5, g1=10, l1=5, bs=12, bl=2, cs=18, cl=3, m1=False, m3=False), dict(s0=10, l0=5, g1=10, l1=5, bs=40, bl=2, cs=12, cl=30, m1=True, m3=True)]))
    for sa, sb in ((PLUS, PLUS), (PLUS, MINUS)):
        for op in ("intersection", "contains"):
            if sa is not sb and (quick or op == "contains"):
                continue
            out.append(Obl("%s_many_many_k34_%s_%s" % (op, sname(sa), sname(sb)), many_many_fn(34, sa, sb, op),
                           dict(P=int, La=int, Lb=int, bs=int, d=int, e=int, at=int),
                           lambda P, La, Lb, bs, d, e, at: 6 <= P and P <= 7 and 2 <= La and La <= 3 and Lb == 3 and 0 <= bs and bs <= 13 and (d == 0 or d == 3) and
                           0 <= e and e <= 3 and (at == 1 or at == 20), budget=1800, cost=240, twin=True,
                           desc="%s of two 34-block locations (1156 block pairs), one block of the first replaced by an empty / 1-nt block or by a block that OVERLAPS the "
                                "next block of its own operand: position-set semantics (overlapping blocks of one operand must not be added up)" % op,
                           bounds="34 x 34 blocks; period 6..7, block lengths 2..3 / 3, second operand shifted by 0..13, replaced block 1 / 20 of length 0, 1, period+2, period+3 (realised)",
                           examples=[dict(P=7, La=2, Lb=3, bs=3, d=3, e=2, at=20), dict(P=6, La=3, Lb=3, bs=9, d=0, e=3, at=1)]))
    for sa, sb in ((PLUS, PLUS), (PLUS, MINUS)):
        for op in (("has_overlap",) if quick else ("has_overlap", "intersection", "contains")):
            if quick and sa is not sb:
                continue
            out.append(Obl("%s_many_many_k12_%s_%s" % (op, sname(sa), sname(sb)), many_many_fn(12, sa, sb, op),
                           dict(P=int, La=int, Lb=int, bs=int, d=int, e=int, at=int),
                           lambda P, La, Lb, bs, d, e, at: 6 <= P and P <= 7 and 2 <= La and La <= 3 and 2 <= Lb and Lb <= 3 and 0 <= bs and bs <= 13 and 0 <= d and
                           0 <= e and e <= 1 and d + e <= P and (at == 1 or at == 6 or at == 10),
                           budget=1800, cost=240, twin=True,
                           desc="%s of two 12-block locations (144 block pairs) that interleave with a common period, one block of the first replaced by an empty or "
                                "1-nt block placed anywhere in its period, equals position-set semantics (a zero-length block overlaps nothing)" % op,
                           bounds="12 x 12 blocks; period 6..7, block lengths 2..3, second operand shifted by 0..13, replaced block 1/6/10 of length 0..1 at every offset (realised)",
                           examples=[dict(P=7, La=2, Lb=3, bs=3, d=4, e=0, at=6), dict(P=6, La=3, Lb=2, bs=9, d=0, e=1, at=1)]))
    for o in out:
        if o.kind == "crosshair":
            o.fn = operands_unchanged(o.fn)
    return out
