"""C20 — gene and collection aggregates are the stated functions of their children."""
import itertools

import harness.common  # noqa: F401
from inscripta.biocantor.exc import BioCantorException, NoncodingTranscriptError, ValidationException
from inscripta.biocantor.gene.biotype import Biotype
from inscripta.biocantor.gene.cds_frame import CDSFrame
from inscripta.biocantor.gene.collections import AnnotationCollection
from inscripta.biocantor.gene.feature import FeatureInterval, FeatureIntervalCollection
from inscripta.biocantor.gene.gene import GeneInterval
from inscripta.biocantor.gene.transcript import TranscriptInterval
from inscripta.biocantor.gene.variants import VariantInterval, VariantIntervalCollection

from harness.common import AND, IFF, ITE, MINUS, NOT, OR, PLUS, GENOME40, blocks_of, chrom_parent, member, mult, sname
from vlib.obl import Obl
from vlib.sym import MAX, MIN, concretize, untraced

META = dict(
    functions=["AbstractFeatureIntervalCollection._find_primary_feature", "GeneInterval.__init__ / is_coding / get_primary_* / get_merged_transcript / "
               "get_merged_cds / _produce_merged_feature", "FeatureIntervalCollection.__init__ / feature_types / get_primary_feature / get_merged_feature",
               "AnnotationCollection.__init__ (bounds inference) / children / iter_children / __len__ / is_empty"],
    bounds=dict(quick="genes with 2 transcripts (1-2 exons each, coding pattern and primary flags driver-enumerated, CDS lengths symbolic so that ties are "
                      "in the space), feature collections with 2 features, annotation collections with 2-3 members; all coordinates unbounded symbolic",
                thorough="3 children, mixed strands, all coding/flag patterns"),
    outside=">3 children; sequence-level accessors beyond the realised 40-nt legs",
    stubs=["S1", "S2", "S3", "S4", "S5", "S6", "S11", "S12"],
    assumptions=["tie-break specification: flagged member, else max CDS length, then max spliced length, then earliest in the list"],
)


def _tx(i, kw, strand, coding, flag, two_exons=False, par=None):
    s, l = kw["s%d" % i], kw["l%d" % i]
    if two_exons:
        g, l2 = kw["g%d" % i], kw["m%d" % i]
        st, en = [s, s + l + g], [s + l, s + l + g + l2]
    else:
        st, en = [s], [s + l]
    if coding:
        c = kw["c%d" % i]
        return TranscriptInterval(st, en, strand, [s], [s + c], [CDSFrame.ZERO], guid=200 + i, is_primary_tx=flag, transcript_id="t%d" % i,
                                  parent_or_seq_chunk_parent=par)
    return TranscriptInterval(st, en, strand, guid=200 + i, is_primary_tx=flag, transcript_id="t%d" % i, parent_or_seq_chunk_parent=par)


def _blocks(i, kw, two_exons):
    s, l = kw["s%d" % i], kw["l%d" % i]
    if two_exons:
        g, l2 = kw["g%d" % i], kw["m%d" % i]
        return [(s, s + l), (s + l + g, s + l + g + l2)]
    return [(s, s + l)]


def _best(keys):
    """index (symbolic) of the winner: lexicographic max of (cds, len), earliest on ties. keys: list of (cds, len)"""
    best = 0
    bc, bn = keys[0]
    for i in range(1, len(keys)):
        c, n = keys[i]
        better = OR(c > bc, AND(c == bc, n > bn))
        best = ITE(better, i, best)
        bc, bn = ITE(better, c, bc), ITE(better, n, bn)
    return best


def gene_fn(n, strands, coding, flags, two_exons):
    def fn(**kw):
        txs = [_tx(i, kw, strands[i], coding[i], flags[i], two_exons[i]) for i in range(n)]
        p = kw["p"]
        nflag = sum(1 for f in flags if f)
        try:
            g = GeneInterval(txs, guid=299, gene_id="g", gene_symbol="sym", gene_type=Biotype.protein_coding)
        except ValidationException:
            return nflag > 1
        if nflag > 1:
            return False
        bl = [_blocks(i, kw, two_exons[i]) for i in range(n)]
        starts = [b[0][0] for b in bl]
        ends = [b[-1][1] for b in bl]
        conds = [g.start == MIN(starts), g.end == MAX(ends), g.is_coding == any(coding), len(list(g.iter_children())) == n]
        # primary
        if nflag == 1:
            conds.append(g.primary_transcript is txs[flags.index(True)])
        else:
            keys = []
            for i in range(n):
                length = sum((e - s) for s, e in bl[i])
                keys.append((kw["c%d" % i] if coding[i] else 0, length))
            conds.append(g.primary_transcript.guid == 200 + _best(keys))
        conds.append(g.get_primary_transcript() is g.primary_transcript)
        conds.append(g.get_primary_feature() is g.primary_transcript)
        conds.append(g.get_primary_cds() is g.primary_transcript.cds)
        # merged transcript / CDS: exactly the union of the children's blocks
        allb = [b for x in bl for b in x]
        mixed = len(set(strands)) > 1
        try:
            m = g.get_merged_transcript()
            mb = blocks_of(m.chromosome_location)
            conds += [NOT(mixed), mult(p, mb) == ITE(member(p, allb), 1, 0), m.start == g.start, m.end == g.end]
            for (s1, e1), (s2, e2) in zip(mb, mb[1:]):
                conds.append(e1 <= s2)  # sorted and disjoint (adjacent children may stay separate blocks)
        except ValueError:
            conds.append(mixed)
        cds_b = [(kw["s%d" % i], kw["s%d" % i] + kw["c%d" % i]) for i in range(n) if coding[i]]
        try:
            mc = g.get_merged_cds()
            cb = blocks_of(mc.chromosome_location)
            conds += [any(coding), mult(p, cb) == ITE(member(p, cds_b), 1, 0)]
        except NoncodingTranscriptError:
            conds.append(not any(coding))
        except ValueError:
            conds.append(len({strands[i] for i in range(n) if coding[i]}) > 1)
        return AND(*conds)

    return fn


def subgene_fn():
    """a gene and the sub-gene a guid query leaves of it (same gene guid, same span, fewer isoforms), asked for their merged transcript / CDS / primary transcript
    / is_coding in either order: each answers for ITS OWN children. Realised leg."""

    def fn(a, la, g, mid, keep, order, code, gtype):
        a, la, g, mid, keep, order, code, gtype = concretize(a, la, g, mid, keep, order, code, gtype)
        with untraced():
            # isoform A: two exons; isoform B: the same two exons plus a middle exon inside A's intron (same span)
            e1, e3 = (a, a + la), (a + la + g + mid + g, a + la + g + mid + g + la)
            e2 = (a + la + g, a + la + g + mid)
            cds_a = ([e1[0] + 1], [e1[1]]) if code in (1, 3) else (None, None)
            cds_b = ([e2[0]], [e2[1]]) if code in (2, 3) else (None, None)
            fr = lambda c: [CDSFrame.ZERO] if c[0] else None  # noqa: E731
            ta = TranscriptInterval([e1[0], e3[0]], [e1[1], e3[1]], PLUS, cds_a[0], cds_a[1], fr(cds_a), guid=801, transcript_id="A")
            tb = TranscriptInterval([e1[0], e2[0], e3[0]], [e1[1], e2[1], e3[1]], PLUS, cds_b[0], cds_b[1], fr(cds_b), guid=802, transcript_id="B")
            gene = GeneInterval([ta, tb], guid=900, gene_id="g", gene_type=[None, Biotype.protein_coding, Biotype.ncRNA][gtype])
            sub = gene.query_by_guids([801 if keep == 0 else 802])
            kept = ta if keep == 0 else tb

            def answers(gobj):
                out = [[(b.start, b.end) for b in gobj.get_merged_transcript().chromosome_location.blocks], gobj.is_coding, gobj.get_primary_transcript().guid]
                try:
                    out.append([(b.start, b.end) for b in gobj.get_merged_cds().chromosome_location.blocks])
                except NoncodingTranscriptError:
                    out.append("noncoding")
                return out

            first, second = (gene, sub) if order == 0 else (sub, gene)
            r1, r2 = answers(first), answers(second)
            rg, rs = (r1, r2) if order == 0 else (r2, r1)
            exp_g = [[e1, e2, e3], code != 0, None, None]
            cds_blocks = ([(cds_a[0][0], cds_a[1][0])] if cds_a[0] else []) + ([(cds_b[0][0], cds_b[1][0])] if cds_b[0] else [])
            ok = rg[0] == exp_g[0] and rg[1] == (code != 0) and rg[3] == (sorted(cds_blocks) if cds_blocks else "noncoding")
            kept_blocks = [(b.start, b.end) for b in kept.chromosome_location.blocks]
            kept_cds = [(b.start, b.end) for b in kept.cds.chromosome_location.blocks] if kept.is_coding else "noncoding"
            ok = ok and rs[0] == kept_blocks and rs[1] == kept.is_coding and rs[2] == kept.guid and rs[3] == kept_cds
            ok = ok and sub.guid == gene.guid and len(list(sub.iter_children())) == 1 and len(list(gene.iter_children())) == 2
            return ok

    return fn


def gene_pre(n, coding, two_exons):
    def pre(**kw):
        for i in range(n):
            if not (kw["s%d" % i] >= 0 and kw["l%d" % i] >= 1):
                return False
            if two_exons[i] and not (kw["g%d" % i] >= 1 and kw["m%d" % i] >= 1):
                return False
            if coding[i] and not (1 <= kw["c%d" % i] and kw["c%d" % i] <= kw["l%d" % i]):
                return False
        return True

    return pre


def gene_params(n, coding, two_exons):
    p = {"p": int}
    for i in range(n):
        p["s%d" % i] = int
        p["l%d" % i] = int
        if two_exons[i]:
            p["g%d" % i] = int
            p["m%d" % i] = int
        if coding[i]:
            p["c%d" % i] = int
    return p


def fcoll_fn(n, strands, flags):
    types = [["a", "b"], ["b", "c"], ["d"]]

    def fn(**kw):
        fs = [FeatureInterval([kw["s%d" % i]], [kw["s%d" % i] + kw["l%d" % i]], strands[i], guid=300 + i, feature_types=types[i],
                              is_primary_feature=flags[i]) for i in range(n)]
        nflag = sum(1 for f in flags if f)
        p = kw["p"]
        try:
            fc = FeatureIntervalCollection(fs, guid=399, feature_collection_name="n", feature_collection_id="i")
        except ValidationException:
            return nflag > 1
        if nflag > 1:
            return False
        bl = [(kw["s%d" % i], kw["s%d" % i] + kw["l%d" % i]) for i in range(n)]
        conds = [fc.start == MIN([b[0] for b in bl]), fc.end == MAX([b[1] for b in bl]),
                 fc.feature_types == set(itertools.chain(*types[:n]))]
        if nflag == 1:
            conds.append(fc.primary_feature is fs[flags.index(True)])
        else:
            conds.append(fc.primary_feature.guid == 300 + _best([(0, kw["l%d" % i]) for i in range(n)]))
        conds.append(fc.get_primary_feature() is fc.primary_feature)
        mixed = len(set(strands)) > 1
        try:
            m = fc.get_merged_feature()
            mb = blocks_of(m.chromosome_location)
            conds += [NOT(mixed), mult(p, mb) == ITE(member(p, bl), 1, 0), m.feature_types == fc.feature_types]
        except ValueError:
            conds.append(mixed)
        # aggregating leaves the members as they were: a collection re-built from any single member reports exactly that member's stated types
        for i in range(n):
            conds.append(fs[i].feature_types == set(types[i]))
            conds.append(FeatureIntervalCollection([fs[i]], guid=398).feature_types == set(types[i]))
        return AND(*conds)

    return fn


def acoll_fn(kinds):
    """annotation collection: iteration sorted by start (stable), len, bounds inferred from the children"""

    def fn(**kw):
        members, genes, fcs, vcs = [], [], [], []
        for i, kind in enumerate(kinds):
            s, l = kw["s%d" % i], kw["l%d" % i]
            if kind == "gene":
                o = GeneInterval([TranscriptInterval([s], [s + l], PLUS, guid=400 + i)], guid=500 + i)
                genes.append(o)
            elif kind == "fc":
                o = FeatureIntervalCollection([FeatureInterval([s], [s + l], MINUS, guid=400 + i)], guid=500 + i)
                fcs.append(o)
            else:
                o = VariantIntervalCollection([VariantInterval(s, s + l, "A", "SNV", guid=400 + i)], guid=500 + i)
                vcs.append(o)
            members.append((o, s, s + l))
        coll = AnnotationCollection(feature_collections=fcs, genes=genes, variant_collections=vcs)
        got = list(coll.iter_children())
        if len(got) != len(kinds):
            return False
        if not genes and not fcs:
            # bounds are inferred from the children only when the collection is not empty in the sense of len() (genes + feature collections)
            bounds = [coll.start is None, coll.end is None]
        else:
            bounds = [coll.start == MIN([m[1] for m in members]), coll.end == MAX([m[2] for m in members])]
        conds = bounds + [
                 len(coll) == len(genes) + len(fcs), coll.is_empty == (len(genes) + len(fcs) == 0)]  # is_empty is defined through len(): variant collections do not count
        for a, b in zip(got, got[1:]):
            conds.append(a.start <= b.start)
        # stable: equal starts keep the constructor's chain order genes, feature collections, variant collections
        order = {id(o): j for j, o in enumerate(genes + fcs + vcs)}
        for a, b in zip(got, got[1:]):
            conds.append(OR(a.start < b.start, order[id(a)] < order[id(b)]))
        conds.append(set(c.guid for c in got) == set(m[0].guid for m in members))
        return AND(*conds)

    return fn


def empty_collection_fn():
    def fn(**kw):
        c = AnnotationCollection()
        return c.is_empty and len(c) == 0 and list(c.iter_children()) == [] and c.chunk_relative_location.is_empty

    return fn


def primary_sequences_fn():
    """realised: the primary accessors return the primary member's own values"""

    def fn(s0, l0, c0, s1, l1, c1):
        s0, l0, c0, s1, l1, c1 = concretize(s0, l0, c0, s1, l1, c1)
        with untraced():
            par = chrom_parent(GENOME40)
            kw = dict(s0=s0, l0=l0, c0=c0, s1=s1, l1=l1, c1=c1)
            txs = [_tx(0, kw, PLUS, True, None, par=chrom_parent(GENOME40)), _tx(1, kw, PLUS, True, None, par=chrom_parent(GENOME40))]
            g = GeneInterval(txs, guid=299, gene_type=Biotype.protein_coding, parent_or_seq_chunk_parent=par)
            exp = 0 if (c0, l0) >= (c1, l1) else 1
            pt = txs[exp]
            ok = g.primary_transcript is pt
            ok = ok and str(g.get_primary_transcript_sequence()) == GENOME40[pt.start: pt.end]
            ok = ok and str(g.get_primary_feature_sequence()) == str(pt.get_spliced_sequence())
            ok = ok and str(g.get_primary_cds_sequence()) == str(pt.get_cds_sequence())
            ok = ok and str(g.get_primary_protein()) == str(pt.get_protein_sequence())
            fs = [FeatureInterval([s0], [s0 + l0], PLUS, guid=300, parent_or_seq_chunk_parent=chrom_parent(GENOME40)),
                  FeatureInterval([s1], [s1 + l1], MINUS, guid=301, parent_or_seq_chunk_parent=chrom_parent(GENOME40))]
            fc = FeatureIntervalCollection(fs, guid=399, parent_or_seq_chunk_parent=par)
            pf = fs[0] if l0 >= l1 else fs[1]
            ok = ok and fc.primary_feature is pf and str(fc.get_primary_feature_sequence()) == str(pf.get_spliced_sequence())
            return ok

    return fn


def obligations(tier):
    out = []
    quick = tier == "quick"
    n = 2
    patterns = []
    for coding in itertools.product((False, True), repeat=n):
        for flags in ((None, None), (True, None), (None, True), (True, True), (False, False)):
            for two in (((False, False), (True, False)) if quick else itertools.product((False, True), repeat=n)):
                for strands in (((PLUS, PLUS),) if quick else ((PLUS, PLUS), (MINUS, MINUS), (PLUS, MINUS))):
                    if quick and flags in ((True, True), (False, False)) and (coding != (True, True) or two != (False, False)):
                        continue
                    patterns.append((coding, flags, tuple(two), strands))
    if quick:
        patterns.append(((True, False), (None, None), (False, False), (PLUS, MINUS)))
    for coding, flags, two, strands in patterns:
        tag = "c%s_f%s_x%s_%s" % ("".join("1" if c else "0" for c in coding), "".join("T" if f else ("F" if f is False else "n") for f in flags),
                                 "".join("2" if t else "1" for t in two), "".join(sname(s)[0] for s in strands))
        ex = dict(p=7)
        for i in range(n):
            ex.update({"s%d" % i: 3 + 4 * i, "l%d" % i: 6})
            if two[i]:
                ex.update({"g%d" % i: 2, "m%d" % i: 3})
            if coding[i]:
                ex["c%d" % i] = 3
        cost = 25 * (1 + sum(two)) * (1 + sum(coding))
        out.append(Obl("gene2_" + tag, gene_fn(n, strands, coding, flags, two), gene_params(n, coding, two), gene_pre(n, coding, two),
                       budget=cost * 8 + 120, cost=cost,
                       desc="gene of 2 transcripts: span = (min start, max end); is_coding = any; primary = flagged one (two flags refused) else max CDS, then "
                            "max spliced length, then earliest; merged transcript/CDS cover exactly the union of (CDS) blocks, normalised; mixed strands refused",
                       bounds="coding %s, flags %s, exons %s, strands %s; unbounded symbolic coordinates and CDS lengths" % (
                           coding, flags, ["2" if t else "1" for t in two], [sname(s) for s in strands]),
                       examples=[ex, dict(ex, s1=ex["s0"])]))
    if not quick:
        for coding in ((True, True, True), (True, False, True), (False, False, False)):
            for strands in ((PLUS, PLUS, PLUS), (MINUS, MINUS, MINUS)):
                two = (False, False, False)
                flags = (None, None, None)
                ex = dict(p=7)
                for i in range(3):
                    ex.update({"s%d" % i: 3 + 4 * i, "l%d" % i: 6})
                    if coding[i]:
                        ex["c%d" % i] = 3
                out.append(Obl("gene3_c%s_%s" % ("".join("1" if c else "0" for c in coding), sname(strands[0])),
                               gene_fn(3, strands, coding, flags, two), gene_params(3, coding, two), gene_pre(3, coding, two), budget=1500, cost=300,
                               desc="gene of 3 single-exon transcripts: span, coding, primary tie-breaks, merged transcript/CDS", bounds="unbounded symbolic",
                               examples=[ex]))
    for nf in ((2,) if quick else (2, 3)):
        for flags in (((None,) * nf, (None, True) + (None,) * (nf - 2), (True, True) + (None,) * (nf - 2))):
            for strands in (((PLUS,) * nf, (PLUS, MINUS) + (PLUS,) * (nf - 2))):
                p = {"p": int}
                for i in range(nf):
                    p.update({"s%d" % i: int, "l%d" % i: int})
                ex = dict(p=5, **{"s%d" % i: 2 + 3 * i for i in range(nf)}, **{"l%d" % i: 4 for i in range(nf)})
                out.append(Obl("fcoll%d_f%s_%s" % (nf, "".join("T" if f else "n" for f in flags), "".join(sname(s)[0] for s in strands)),
                               fcoll_fn(nf, strands, flags), p,
                               (lambda nf: (lambda **kw: all(kw["s%d" % i] >= 0 and kw["l%d" % i] >= 1 for i in range(nf))))(nf), budget=400,
                               cost=20 * nf,
                               desc="feature collection: span, feature types = union, primary = flagged else longest then earliest, merged feature = union of blocks",
                               bounds="%d features, unbounded symbolic coordinates" % nf, examples=[ex, dict(ex, l1=9)]))
    for kinds in ((("gene", "fc"), ("gene", "gene", "fc"), ("fc", "variant", "gene"), ("variant", "variant", "gene")) if quick else
                  (("gene", "fc"), ("gene", "gene", "fc"), ("fc", "variant", "gene"), ("variant", "variant", "gene"), ("gene", "gene", "gene"),
                   ("variant", "fc", "fc"), ("variant", "variant", "variant"))):
        p = {}
        for i in range(len(kinds)):
            p.update({"s%d" % i: int, "l%d" % i: int})
        ex = dict(**{"s%d" % i: 9 - 3 * i for i in range(len(kinds))}, **{"l%d" % i: (1 if kinds[i] == "variant" else 4) for i in range(len(kinds))})
        out.append(Obl("acoll_%s" % "_".join(kinds), acoll_fn(kinds), p,
                       (lambda kinds: (lambda **kw: all(kw["s%d" % i] >= 0 and kw["l%d" % i] >= 1 and (kinds[i] != "variant" or kw["l%d" % i] == 1)
                                                      for i in range(len(kinds)))))(kinds), budget=600,
                       cost=30 * len(kinds),
                       desc="annotation collection iterates its members ordered by start (stable), bounds = (min start, max end) of the children, len counts genes+feature collections",
                       bounds="%d members (%s), unbounded symbolic coordinates" % (len(kinds), ",".join(kinds)), examples=[ex, dict(ex, s1=ex["s0"])]))
    out.append(Obl("gene_and_its_guid_subgene", subgene_fn(), dict(a=int, la=int, g=int, mid=int, keep=int, order=int, code=int, gtype=int),
                   lambda a, la, g, mid, keep, order, code, gtype: 100 <= a and a <= 101 and 3 <= la and la <= 4 and 2 <= g and g <= 3 and 2 <= mid and mid <= 3 and 0 <= keep and
                   keep <= 1 and 0 <= order and order <= 1 and 0 <= code and code <= 3 and 0 <= gtype and gtype <= 2, budget=600, cost=40,
                   desc="a 2-isoform gene (isoform B = isoform A plus an exon in A's intron) and the sub-gene that query_by_guids leaves of it (same guid and span), asked in "
                        "either order: merged transcript / merged CDS / is_coding / primary transcript of each are those of ITS OWN isoforms, whatever gene_type says",
                   bounds="exon 3..4 nt, introns 2..3, middle exon 2..3, which isoform is kept x order x 4 coding patterns x 3 gene types (realised)",
                   examples=[dict(a=100, la=3, g=2, mid=2, keep=0, order=0, code=2, gtype=1), dict(a=101, la=4, g=3, mid=3, keep=1, order=1, code=1, gtype=0)]))
    out.append(Obl("acoll_empty", empty_collection_fn(), {"x": int}, lambda x: x == 0, budget=30, cost=1,
                   desc="an empty annotation collection is empty, has length 0 and an empty location", bounds="-", examples=[dict(x=0)]))
    out.append(Obl("primary_sequences", primary_sequences_fn(), dict(s0=int, l0=int, c0=int, s1=int, l1=int, c1=int),
                   lambda s0, l0, c0, s1, l1, c1: 0 <= s0 and s0 <= 3 and 3 <= l0 and l0 <= 7 and 3 <= c0 and c0 <= l0 and 0 <= s1 and s1 <= 3 and
                   3 <= l1 and l1 <= 7 and 3 <= c1 and c1 <= l1, budget=900, cost=80,
                   desc="primary transcript/feature/CDS/protein accessors return the primary member's own sequences (ties included)",
                   bounds="2 single-exon coding transcripts on a 40-nt genome, starts 0..3, lengths 3..7, CDS lengths 3..len (realised)",
                   examples=[dict(s0=0, l0=6, c0=6, s1=2, l1=6, c1=6)]))
    return out
