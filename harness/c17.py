"""C17 — NCBI feature-table (.tbl) export lists the model's genes 5'->3' with correct partial marks."""
import io
import warnings

import harness.common  # noqa: F401
from inscripta.biocantor.gene.biotype import Biotype
from inscripta.biocantor.gene.cds_frame import CDSFrame
from inscripta.biocantor.gene.codon import TranslationTable
from inscripta.biocantor.gene.collections import AnnotationCollection
from inscripta.biocantor.gene.gene import GeneInterval
from inscripta.biocantor.gene.transcript import TranscriptInterval
from inscripta.biocantor.exc import BioCantorException
from inscripta.biocantor.io.ncbi.tbl_writer import GenbankFlavor, TblGene, collection_to_tbl

from harness.cdsmodel import START_CODONS, codon_strings, ref_codon_positions, ref_translate
from harness.common import AND, MINUS, NOT, OR, PLUS, chrom_parent, layout_blocks, layout_params, layout_pre, sname
from vlib.obl import Obl
from vlib.sym import concretize, untraced
from vlib.tok import untok

META = dict(
    functions=["TblFeature._location_to_str / _qualifiers_to_str", "GeneTblFeature / MRNATblFeature / CDSTblFeature / NcRNATblFeature / TRNATblFeature / "
               "RRNATblFeature / MiscRNATblFeature", "TblGene (block merging)", "collection_to_tbl (header, locus tags, flavours, seeding)"],
    bounds=dict(quick="interval lines of non-coding genes with UNBOUNDED symbolic coordinates through symbolic tokens (<=3 exons, 4 RNA biotypes, both strands); "
                      "coding genes on a 48-nt genome assembled from start/stop/sense codons: every CDS window and start frame (realised), both strands, "
                      "3 translation tables, both flavours; adjacent CDS blocks; locus-tag stepping with a symbolic step; seeded reproducibility",
                thorough="2-exon coding transcripts, 3 genes"),
    outside="qualifier text beyond gene/locus_tag/codon_start/pseudo; random identifier contents (only their reproducibility under a seed)",
    stubs=["S1", "S2", "S3", "S4", "S5", "S6", "S8 tokens (interval legs)", "S11", "S12"],
    assumptions=["independent 5-column reader in the harness", "reading-frame model harness/cdsmodel.py and the standard code for start/stop decisions"],
)


def read_tbl(text):
    """independent reader: [(feature_type, [(start_field, end_field)], {key: [values]})]"""
    feats = []
    for line in text.split("\n"):
        if not line or line.startswith(">"):
            continue
        cols = line.split("\t")
        if len(cols) != 5:
            return None
        if cols[0] != "":
            if cols[2] != "":
                feats.append((cols[2], [(cols[0], cols[1])], {}))
            else:
                if not feats:
                    return None
                feats[-1][1].append((cols[0], cols[1]))
        else:
            if not feats or cols[1] != "" or cols[2] != "":
                return None
            feats[-1][2].setdefault(cols[3], []).append(cols[4])
    return feats


def expected_intervals(blocks, strand):
    """1-based inclusive pairs in 5'->3' order (start > end on the minus strand)"""
    pairs = [(s + 1, e) for s, e in blocks]
    if strand is MINUS:
        pairs = [(b, a) for a, b in pairs][::-1]
    return pairs


def noncoding_fn(k, strand, biotype):
    ftype = {Biotype.rRNA: "rRNA", Biotype.tRNA: "tRNA"}.get(biotype, "ncRNA")

    def fn(**kw):
        ex = layout_blocks(k, kw)
        tx = TranscriptInterval([e[0] for e in ex], [e[1] for e in ex], strand, guid=901, transcript_id="tx1", transcript_type=biotype,
                                sequence_name="chr1")
        gene = GeneInterval([tx], guid=900, gene_id="gid", gene_symbol="sym", gene_type=biotype, sequence_name="chr1")
        with warnings.catch_warnings():
            warnings.simplefilter("ignore")
            text = "\n".join(str(o) for o in TblGene(gene, "lab", "LT_5"))
        feats = read_tbl(text)
        if feats is None or [f[0] for f in feats] != ["gene", ftype]:
            return False
        conds = []
        g_iv, t_iv = feats[0][1], feats[1][1]
        exp_gene = expected_intervals([(ex[0][0], ex[-1][1])], strand)
        exp_tx = expected_intervals(ex, strand)
        if len(g_iv) != 1 or len(t_iv) != len(exp_tx):
            return False
        for (a, b), (ea, eb) in zip(g_iv + t_iv, exp_gene + exp_tx):
            conds.append(AND(untok(a) == ea, untok(b) == eb))
        conds.append(feats[0][2].get("locus_tag") == ["LT_5"] and feats[0][2].get("gene") == ["sym"])
        conds.append("pseudo" not in feats[0][2] and "pseudo" not in feats[1][2])
        return AND(*conds)

    return fn


# ------------------------------------------------------------------ coding genes on a concrete genome
#          0         1         2         3         4
#          012345678901234567890123456789012345678901234567
GENOME = "TTGTGATGCAGGCTTGACCTGGTGAAGTAAATGCATTAGCCCATGTGA"  # first codons within reach of the CDS-start space: TTG (tables 1, 11), GTG (11), TGA, ATG, non-starts;
# further starts ATG/TTG/CTG/GTG and stops TAG/TGA/TAA in several frames on both strands
COMP = {"A": "T", "C": "G", "G": "C", "T": "A"}
TABLES = {0: TranslationTable.DEFAULT, 1: TranslationTable.STANDARD, 11: TranslationTable.PROKARYOTE}


def coding_expect(cs, n, strand, frame, table):
    codons = ref_codon_positions([cs], [n], strand, [frame])
    cstr = codon_strings(codons, GENOME, strand)
    prot = ref_translate(cstr, table, False)
    five_partial = cstr[0] not in START_CODONS[table]
    three_partial = ((n - frame) % 3 != 0) or cstr[-1] not in ("TAA", "TAG", "TGA")
    pseudo = "*" in ref_translate(cstr, 0, False)[:-1]
    return five_partial, three_partial, pseudo


def coding_fn(strand, flavor, table):
    def fn(es, el, co, cl, frame):
        es, el, co, cl, frame = concretize(es, el, co, cl, frame)
        with untraced():
            cs = es + co
            par = lambda: chrom_parent(GENOME)  # noqa: E731
            tx = TranscriptInterval([es], [es + el], strand, [cs], [cs + cl], [CDSFrame(frame)], transcript_id="tx1", protein_id="p1",
                                    sequence_name="chr1", parent_or_seq_chunk_parent=par())
            gene = GeneInterval([tx], gene_id="gid", gene_symbol="sym", gene_type=Biotype.protein_coding, sequence_name="chr1",
                                parent_or_seq_chunk_parent=par())
            coll = AnnotationCollection(genes=[gene], sequence_name="chr1", parent_or_seq_chunk_parent=par())
            buf = io.StringIO()
            with warnings.catch_warnings():
                warnings.simplefilter("ignore")
                collection_to_tbl([coll], buf, translation_table=TABLES[table], locus_tag_prefix="LT", genbank_flavor=flavor,
                                  locus_tag_jump_size=5, submitter_lab_name="lab", random_seed=7)
            text = buf.getvalue()
            if not text.startswith(">Features chr1\n"):
                return False
            feats = read_tbl(text)
            want_types = ["gene", "mRNA", "CDS"] if flavor == GenbankFlavor.EUKARYOTIC else ["gene", "CDS"]
            if feats is None or [f[0] for f in feats] != want_types:
                return False
            five, three, pseudo = coding_expect(cs, cl, strand, frame, table)
            ok = True
            by = {f[0]: f for f in feats}
            # gene: one plain interval
            ok = ok and by["gene"][1] == [tuple(map(str, expected_intervals([(es, es + el)], strand)[0]))]
            ok = ok and by["gene"][2].get("locus_tag") == ["LT_5"] and (("pseudo" in by["gene"][2]) == pseudo)
            def marked(pairs):
                pairs = [[str(a), str(b)] for a, b in pairs]
                if five:
                    pairs[0][0] = "<" + pairs[0][0]
                if three:
                    pairs[-1][1] = ">" + pairs[-1][1]
                return [tuple(p) for p in pairs]
            ok = ok and by["CDS"][1] == marked(expected_intervals([(cs, cs + cl)], strand))
            ok = ok and by["CDS"][2].get("codon_start") == [str(frame + 1)] and (("pseudo" in by["CDS"][2]) == pseudo)
            if "mRNA" in by:
                ok = ok and by["mRNA"][1] == marked(expected_intervals([(es, es + el)], strand))
            return ok

    return fn


def coding2_fn(strand, table):
    """two-exon transcript whose CDS covers both exons (two NON-adjacent CDS blocks), consistent frames from start frame f0"""
    from harness.cdsmodel import consistent_frames

    def fn(es, l0, l1, f0):
        es, l0, l1, f0 = concretize(es, l0, l1, f0)
        with untraced():
            g = 3
            ex = [(es, es + l0), (es + l0 + g, es + l0 + g + l1)]
            frames = consistent_frames([l0, l1], strand, f0)
            par = lambda: chrom_parent(GENOME)  # noqa: E731
            tx = TranscriptInterval([e[0] for e in ex], [e[1] for e in ex], strand, [e[0] for e in ex], [e[1] for e in ex], [CDSFrame(f) for f in frames],
                                    transcript_id="tx1", sequence_name="chr1", parent_or_seq_chunk_parent=par())
            gene = GeneInterval([tx], gene_id="gid", gene_symbol="sym", gene_type=Biotype.protein_coding, sequence_name="chr1",
                                parent_or_seq_chunk_parent=par())
            codons = ref_codon_positions([e[0] for e in ex], [l0, l1], strand, frames)
            try:
                with warnings.catch_warnings():
                    warnings.simplefilter("ignore")
                    text = "\n".join(str(o) for o in TblGene(gene, "lab", "LT_5", TABLES[table]))
            except (ValueError, BioCantorException):
                return not codons  # a CDS without a complete codon may be refused with a documented exception (as in C05/C19), nothing else may
            feats = read_tbl(text)
            if feats is None or [f[0] for f in feats] != ["gene", "mRNA", "CDS"]:
                return False
            if not codons:
                return True
            cstr = codon_strings(codons, GENOME, strand)
            five = cstr[0] not in START_CODONS[table]
            three = ((l0 + l1 - f0) % 3 != 0) or cstr[-1] not in ("TAA", "TAG", "TGA")
            pseudo = "*" in ref_translate(cstr, 0, False)[:-1]
            pairs = [[str(a), str(b)] for a, b in expected_intervals(ex, strand)]
            if five:
                pairs[0][0] = "<" + pairs[0][0]
            if three:
                pairs[-1][1] = ">" + pairs[-1][1]
            cds = feats[2]
            return cds[1] == [tuple(p) for p in pairs] and cds[2].get("codon_start") == [str(f0 + 1)] and (("pseudo" in cds[2]) == pseudo) \
                and feats[1][1] == [tuple(p) for p in pairs]

    return fn


def isoforms_fn(strand, table):
    """two coding isoforms with the SAME CDS start, end and start frame but first exons of different length (different length mod 3): each isoform's
    CDS and mRNA carry the partial marks of ITS OWN reading frame"""
    from harness.cdsmodel import consistent_frames

    def fn(a1, a2, f0, ee):
        a1, a2, f0, ee = concretize(a1, a2, f0, ee)
        with untraced():
            es, t = 0, 16
            isos = []
            for a in (a1, a2):
                ex = [(es, es + a), (t, ee)] if strand is PLUS else [(es, es + (ee - t)), (ee - a, ee)]
                lens = [e[1] - e[0] for e in ex]
                isos.append((ex, lens, consistent_frames(lens, strand, f0)))
            par = lambda: chrom_parent(GENOME)  # noqa: E731
            txs = [TranscriptInterval([e[0] for e in ex], [e[1] for e in ex], strand, [e[0] for e in ex], [e[1] for e in ex], [CDSFrame(f) for f in fr],
                                      transcript_id="tx%d" % i, sequence_name="chr1", parent_or_seq_chunk_parent=par()) for i, (ex, lens, fr) in enumerate(isos)]
            gene = GeneInterval(txs, gene_id="gid", gene_symbol="sym", gene_type=Biotype.protein_coding, sequence_name="chr1", parent_or_seq_chunk_parent=par())
            with warnings.catch_warnings():
                warnings.simplefilter("ignore")
                text = "\n".join(str(o) for o in TblGene(gene, "lab", "LT_5", TABLES[table]))
            feats = read_tbl(text)
            if feats is None or [f[0] for f in feats] != ["gene", "mRNA", "CDS", "mRNA", "CDS"]:
                return False
            for i, (ex, lens, fr) in enumerate(isos):
                codons = ref_codon_positions([e[0] for e in ex], lens, strand, fr)
                if not codons:
                    continue
                cstr = codon_strings(codons, GENOME, strand)
                five = cstr[0] not in START_CODONS[table]
                three = ((sum(lens) - f0) % 3 != 0) or cstr[-1] not in ("TAA", "TAG", "TGA")
                pairs = [[str(x), str(y)] for x, y in expected_intervals(ex, strand)]
                if five:
                    pairs[0][0] = "<" + pairs[0][0]
                if three:
                    pairs[-1][1] = ">" + pairs[-1][1]
                if feats[2 + 2 * i][1] != [tuple(p) for p in pairs] or feats[1 + 2 * i][1] != [tuple(p) for p in pairs]:
                    return False
            return True

    return fn


def coding_pre(es, el, co, cl, frame):
    return (0 <= es and es <= 2 and es + el <= 48 and 0 <= co and co <= 2 and 0 <= frame and frame <= 2
            and cl >= 3 + frame and cl <= 30 and (el - co - cl == 0 or el - co - cl == 2))


def adjacent_cds_fn(strand):
    """CDS given as two ADJACENT blocks (0-bp gap) with ARBITRARY annotated frames (consistent, or a modelled frameshift): exported as one merged
    interval; pseudo flag, partial marks and codon_start describe the MERGED CDS that is written (one block, start frame of the 5' block)"""

    def fn(cs, l0, l1, fa, fb):
        cs, l0, l1, fa, fb = concretize(cs, l0, l1, fa, fb)
        with untraced():
            es, ee = 0, 48
            frames = [CDSFrame(fa), CDSFrame(fb)]
            tx = TranscriptInterval([es], [ee], strand, [cs, cs + l0], [cs + l0, cs + l0 + l1], frames,
                                    transcript_id="tx1", sequence_name="chr1", parent_or_seq_chunk_parent=chrom_parent(GENOME))
            tx2 = TranscriptInterval([es, 20], [20, ee], strand, [cs, cs + l0], [cs + l0, cs + l0 + l1], frames, transcript_id="tx2", sequence_name="chr1",
                                     parent_or_seq_chunk_parent=chrom_parent(GENOME))
            gene = GeneInterval([tx, tx2], gene_id="gid", gene_symbol="sym", gene_type=Biotype.protein_coding, sequence_name="chr1",
                                parent_or_seq_chunk_parent=chrom_parent(GENOME))
            with warnings.catch_warnings():
                warnings.simplefilter("ignore")
                text = "\n".join(str(o) for o in TblGene(gene, "lab", "LT_5"))
            feats = read_tbl(text)
            if feats is None or [f[0] for f in feats] != ["gene", "mRNA", "CDS", "mRNA", "CDS"]:
                return False
            f5 = fa if strand is PLUS else fb
            n = l0 + l1
            codons = ref_codon_positions([cs], [n], strand, [f5])
            cstr = codon_strings(codons, GENOME, strand) if codons else []
            pseudo = bool(cstr) and "*" in ref_translate(cstr, 0, False)[:-1]
            five = (not cstr) or cstr[0] not in START_CODONS[0]
            three = (not cstr) or ((n - f5) % 3 != 0) or cstr[-1] not in ("TAA", "TAG", "TGA")
            for f in feats:
                if f[0] == "CDS":
                    iv = [(a.lstrip("<>"), b.lstrip("<>")) for a, b in f[1]]
                    if iv != [tuple(map(str, p)) for p in expected_intervals([(cs, cs + l0 + l1)], strand)]:
                        return False
                    if cstr:
                        if f[1][0][0].startswith("<") != five or f[1][-1][1].startswith(">") != three:
                            return False
                        if f[2].get("codon_start") != [str(f5 + 1)] or ("pseudo" in f[2]) != pseudo:
                            return False
                if f[0] == "mRNA":
                    if len(f[1]) not in (1,):
                        return False  # adjacent exons 0-20,20-48 are merged as well
                if f[0] == "gene" and cstr and ("pseudo" in f[2]) != pseudo:
                    return False
            return True

    return fn


def locus_tags_fn():
    def fn(jump, ngenes):
        ngenes = concretize(ngenes)
        colls = []
        n = 0
        for c in range(2):
            genes = []
            for i in range(ngenes):
                tx = TranscriptInterval([10 * n], [10 * n + 5], PLUS, guid=920 + n, transcript_id="t%d" % n, transcript_type=Biotype.lncRNA,
                                        sequence_name="chr%d" % c)
                genes.append(GeneInterval([tx], guid=940 + n, gene_symbol="g%d" % n, gene_type=Biotype.lncRNA, sequence_name="chr%d" % c))
                n += 1
            colls.append(AnnotationCollection(genes=genes, sequence_name="chr%d" % c))
        buf = io.StringIO()
        with warnings.catch_warnings():
            warnings.simplefilter("ignore")
            collection_to_tbl(colls, buf, locus_tag_prefix="LT", locus_tag_jump_size=jump, submitter_lab_name="lab", random_seed=3)
        text = buf.getvalue()
        headers = [ln for ln in text.split("\n") if ln.startswith(">")]
        feats = read_tbl(text)
        tags = [f[2]["locus_tag"][0] for f in feats if f[0] == "gene"]
        if headers != [">Features chr0", ">Features chr1"] or len(tags) != 2 * ngenes:
            return False
        conds = []
        for i, t in enumerate(tags):
            if not t.startswith("LT_"):
                return False
            conds.append(untok(t[3:]) == (i + 1) * jump)
        return AND(*conds) if conds else True

    return fn


def export_twice_fn():
    """the SAME in-memory collection exported twice with the same seed: identical text, and the model is left as it was (export is a read-only question)"""
    BT = [Biotype.rRNA, Biotype.tRNA, Biotype.ncRNA, Biotype.protein_coding, Biotype.lncRNA if hasattr(Biotype, "lncRNA") else Biotype.ncRNA]

    def fn(b, two_exons, prod, flavor):
        b, two_exons, prod, flavor = concretize(b, two_exons, prod, flavor)
        with untraced():
            bt = BT[b]
            par = lambda: chrom_parent(GENOME)  # noqa: E731
            ex = [(2, 11), (14, 23)] if two_exons else [(2, 11)]
            q = {"product": ["16S ribosomal RNA"]} if prod == 1 else ({"product": ["p1", "p2"], "note": ["n"]} if prod == 2 else None)
            kw = dict(cds_starts=[2], cds_ends=[11], cds_frames=[CDSFrame.ZERO]) if bt is Biotype.protein_coding else {}
            tx = TranscriptInterval([e[0] for e in ex], [e[1] for e in ex], PLUS, transcript_id="tx1", sequence_name="chr1", qualifiers=q, transcript_type=bt,
                                    parent_or_seq_chunk_parent=par(), **kw)
            gene = GeneInterval([tx], gene_id="gid", gene_symbol="sym", gene_type=bt, sequence_name="chr1", qualifiers=q, parent_or_seq_chunk_parent=par())
            coll = AnnotationCollection(genes=[gene], sequence_name="chr1", parent_or_seq_chunk_parent=par())
            before = coll.to_dict()
            outs = []
            for _ in range(3):
                buf = io.StringIO()
                with warnings.catch_warnings():
                    warnings.simplefilter("ignore")
                    collection_to_tbl([coll], buf, random_seed=5, genbank_flavor=[GenbankFlavor.EUKARYOTIC, GenbankFlavor.PROKARYOTIC][flavor])
                outs.append(buf.getvalue())
                if coll.to_dict() != before:
                    return False
            return outs[0] == outs[1] == outs[2] and outs[0].startswith(">Features chr1")

    return fn, len(BT)


def seed_history_fn():
    """the table written for a seed is a function of the seed and the collections alone: the same call gives the same text in a freshly loaded writer module,
    after an export with ANOTHER seed, after an export of a SUBSET of the genes, and when the collections arrive as a one-shot iterator instead of a list"""

    def fn(seed, other, flavor):
        seed, other, flavor = concretize(seed, other, flavor)
        with untraced():
            import importlib
            import sys

            def fresh():
                name = "inscripta.biocantor.io.ncbi.tbl_writer"
                return importlib.reload(sys.modules[name]) if name in sys.modules else importlib.import_module(name)

            def colls(which):
                out = []
                for tag, (a, b) in (("A", (2, 11)), ("B", (20, 32))):
                    if tag not in which:
                        continue
                    tx = TranscriptInterval([a], [b], PLUS, [a], [b], [CDSFrame.ZERO], transcript_id="tx" + tag, sequence_name="chr1", guid=None,
                                            parent_or_seq_chunk_parent=chrom_parent(GENOME))
                    out.append(GeneInterval([tx], gene_id="g" + tag, gene_symbol="sym" + tag, gene_type=Biotype.protein_coding, sequence_name="chr1",
                                            parent_or_seq_chunk_parent=chrom_parent(GENOME)))
                return [AnnotationCollection(genes=out, sequence_name="chr1", parent_or_seq_chunk_parent=chrom_parent(GENOME))]

            def export(mod, cs, sd):
                buf = io.StringIO()
                with warnings.catch_warnings():
                    warnings.simplefilter("ignore")
                    mod.collection_to_tbl(cs, buf, random_seed=sd, genbank_flavor=[mod.GenbankFlavor.EUKARYOTIC, mod.GenbankFlavor.PROKARYOTIC][flavor])
                return buf.getvalue()

            ref = export(fresh(), colls("AB"), seed)
            if not ref.startswith(">Features chr1") or "protein_id" not in ref:
                return False
            m = fresh()
            export(m, colls("AB"), other)
            ok = export(m, colls("AB"), seed) == ref
            m = fresh()
            export(m, colls("B"), seed)
            ok = ok and export(m, colls("AB"), seed) == ref
            m = fresh()
            ok = ok and export(m, iter(colls("AB")), seed) == ref and export(m, (c for c in colls("AB")), seed) == ref and export(m, tuple(colls("AB")), seed) == ref
            # two transcripts never share an identifier
            pid = {ln.split("\t")[-1] for ln in ref.splitlines() if "\tprotein_id\t" in ln}
            tid = {ln.split("\t")[-1] for ln in ref.splitlines() if "\ttranscript_id\t" in ln}
            return ok and len(pid) == 2 and len(tid) == 2 and not (pid & tid)

    return fn


def reproducible_fn():
    def fn(seed):
        seed = concretize(seed)
        with untraced():
            def run():
                tx = TranscriptInterval([2], [11], PLUS, [2], [11], [CDSFrame.ZERO], transcript_id="tx1", sequence_name="chr1",
                                        parent_or_seq_chunk_parent=chrom_parent(GENOME))
                gene = GeneInterval([tx], gene_id="gid", gene_symbol="sym", gene_type=Biotype.protein_coding, sequence_name="chr1",
                                    parent_or_seq_chunk_parent=chrom_parent(GENOME))
                coll = AnnotationCollection(genes=[gene], sequence_name="chr1", parent_or_seq_chunk_parent=chrom_parent(GENOME))
                buf = io.StringIO()
                with warnings.catch_warnings():
                    warnings.simplefilter("ignore")
                    collection_to_tbl([coll], buf, random_seed=seed)
                return buf.getvalue()

            a, b = run(), run()
            return a == b and a.startswith(">Features chr1")

    return fn


def obligations(tier):
    out = []
    quick = tier == "quick"
    for strand in (PLUS, MINUS):
        sn = sname(strand)
        for k in ((1, 2, 3) if quick else (1, 2, 3, 4)):
            for bt in ((Biotype.lncRNA,) if (quick and k != 2) else (Biotype.lncRNA, Biotype.rRNA, Biotype.tRNA, Biotype.misc_RNA)):
                ex = dict({"s0": 4}, **{"l%d" % i: 3 for i in range(k)}, **{"g%d" % i: 2 for i in range(1, k)})
                out.append(Obl("intervals_noncoding_k%d_%s_%s" % (k, sn, bt.name), noncoding_fn(k, strand, bt), dict(layout_params(k)),
                               (lambda k: (lambda **kw: layout_pre(k, kw, min_len=1, min_gap=1)))(k), budget=300, cost=10 * k, stubs=dict(tokens=True),
                               desc="gene and RNA feature lines (5-column reader): gene = one interval, RNA = the source blocks as 1-based inclusive "
                                    "intervals in 5'->3' order (start > end on minus), feature type on the first line only, no partial marks, locus tag",
                               bounds="%d exons, unbounded symbolic coordinates, biotype %s" % (k, bt.name), examples=[ex]))
        for flavor in (GenbankFlavor.EUKARYOTIC, GenbankFlavor.PROKARYOTIC):
            for table in ((0, 11) if quick else (0, 1, 11)):
                if quick and flavor == GenbankFlavor.PROKARYOTIC and table == (0 if strand is MINUS else 11):
                    continue  # quick: the prokaryotic flavour with the default table on plus, with table 11 on minus
                out.append(Obl("coding_%s_%s_table%d" % (sn, flavor.name.lower(), table), coding_fn(strand, flavor, table),
                               dict(es=int, el=int, co=int, cl=int, frame=int), coding_pre, budget=340, cost=120,
                               desc="coding gene exported through collection_to_tbl: header, gene/mRNA/CDS features (no mRNA in the prokaryotic flavour), "
                                    "5'-partial mark <=> first codon not a start codon of table %d, 3'-partial <=> not ending in frame on a stop, "
                                    "codon_start = start frame + 1, pseudo <=> in-frame stop, locus tag" % table,
                               bounds="48-nt genome, transcript start 0..2, CDS offset 0..2, CDS length 3..30, 3' UTR 0 or 2, 3 start frames (realised)",
                               examples=[dict(es=0, el=11, co=2, cl=9, frame=0), dict(es=0, el=14, co=2, cl=10, frame=1)]))
        for table in ((11,) if quick else (0, 1, 11)):
            out.append(Obl("coding_two_exons_%s_table%d" % (sn, table), coding2_fn(strand, table), dict(es=int, l0=int, l1=int, f0=int),
                           (lambda plus: (lambda es, l0, l1, f0: 0 <= es and es <= 2 and 1 <= l0 and l0 <= 9 and 1 <= l1 and l1 <= 9 and 0 <= f0 and f0 <= 2 and (l0 if plus else l1) > f0))(strand is PLUS),
                           budget=340, cost=60,
                           desc="two-exon coding transcript (two non-adjacent CDS blocks, consistent frames): codon_start = START frame + 1 (frame of the 5' "
                                "block, whichever strand), partial marks and pseudo per the reading-frame model, both blocks listed 5'->3'",
                           bounds="48-nt genome, start 0..2, exon lengths 1..9 each (codons and stop codons split by the intron included), start frames 0..2 with the 5' exon longer than the start offset (realised)",
                           examples=[dict(es=1, l0=4, l1=8, f0=0), dict(es=0, l0=8, l1=1, f0=0)]))
        out.append(Obl("isoforms_same_cds_bounds_%s" % sn, isoforms_fn(strand, 11), dict(a1=int, a2=int, f0=int, ee=int),
                       lambda a1, a2, f0, ee: 3 <= a1 and a1 <= 8 and 3 <= a2 and a2 <= 8 and 0 <= f0 and f0 <= 2 and 22 <= ee and ee <= 30, budget=400, cost=60,
                       desc="two coding isoforms sharing CDS start, end and start frame but differing in an internal exon edge: the partial marks of each isoform's CDS and "
                            "mRNA are those of its own reading frame (nothing is shared between isoforms through their CDS bounds)",
                       bounds="first-exon lengths 3..8 each, start frames 0..2, transcript end 22..30 on the 48-nt genome (realised)", examples=[dict(a1=6, a2=7, f0=0, ee=27)]))
        out.append(Obl("adjacent_cds_blocks_%s" % sn, adjacent_cds_fn(strand), dict(cs=int, l0=int, l1=int, fa=int, fb=int),
                       lambda cs, l0, l1, fa, fb: 2 <= cs and cs <= 5 and 3 <= l0 and l0 <= 8 and 3 <= l1 and l1 <= 8 and 0 <= fa and fa <= 2 and 0 <= fb and fb <= 2,
                       budget=400, cost=90,
                       desc="a CDS given as adjacent blocks with arbitrary annotated frames (incl. modelled frameshifts) is exported as one merged interval (single- and "
                            "multi-exon transcripts); pseudo / partial marks / codon_start are those of the merged CDS that is written",
                       bounds="CDS start 2..5, block lengths 3..8, both block frames 0..2 (realised)", examples=[dict(cs=2, l0=4, l1=5, fa=0, fb=1), dict(cs=2, l0=4, l1=5, fa=0, fb=2)]))
    out.append(Obl("locus_tags_step", locus_tags_fn(), dict(jump=int, ngenes=int), lambda jump, ngenes: jump >= 1 and 1 <= ngenes and ngenes <= 2,
                   budget=300, cost=30, stubs=dict(tokens=True),
                   desc="locus tags over a file of two sequences: k-th gene gets prefix_(k*step) (unique, increasing by the requested step); one header per sequence",
                   bounds="2 collections x 1..2 genes, SYMBOLIC step >= 1", examples=[dict(jump=5, ngenes=2)]))
    et, nbt = export_twice_fn()
    out.append(Obl("export_repeatable_model_untouched", et, dict(b=int, two_exons=bool, prod=int, flavor=int),
                   (lambda nbt: (lambda b, two_exons, prod, flavor: 0 <= b and b < nbt and 0 <= prod and prod <= 2 and 0 <= flavor and flavor <= 1))(nbt), budget=300, cost=20,
                   desc="exporting one in-memory collection three times with the same seed (rRNA / tRNA / ncRNA / coding genes, with and without product qualifiers, "
                        "single- and two-exon, both flavours) gives identical text and leaves the collection's dictionary form unchanged",
                   bounds="5 biotypes x exon count x 3 qualifier patterns x 2 flavours (realised)", examples=[dict(b=0, two_exons=False, prod=1, flavor=0), dict(b=3, two_exons=True, prod=2, flavor=1)]))
    out.append(Obl("seeded_output_reproducible", reproducible_fn(), dict(seed=int), lambda seed: 0 <= seed and seed <= 3, budget=120, cost=10,
                   desc="two exports with the same random_seed are byte-identical", bounds="seeds 1..3", examples=[dict(seed=2)]))
    out.append(Obl("table_is_a_function_of_seed_and_collections", seed_history_fn(), dict(seed=int, other=int, flavor=int),
                   lambda seed, other, flavor: 0 <= seed and seed <= 5 and 0 <= other and other <= 5 and seed != other and 0 <= flavor and flavor <= 1, budget=600, cost=40,
                   desc="feature table of two coding genes for a seed: the same text in a freshly loaded writer module, after an export with another seed, after an export "
                        "of one of the genes alone, and when the collections are handed over as an iterator / generator / tuple; identifiers of different transcripts differ",
                   bounds="seeds 0..5 x another seed 0..5 x 2 flavours (closed by the solver), writer module reloaded inside the body",
                   examples=[dict(seed=5, other=3, flavor=0), dict(seed=0, other=1, flavor=1)]))
    return out
