"""C13 — variant haplotypes: alternative sequence and lift-over match the edit model."""
import itertools

import harness.common  # noqa: F401
from inscripta.biocantor.exc import BioCantorException, EmptyLocationException, LocationOverlapException
from inscripta.biocantor.gene.cds import CDSInterval
from inscripta.biocantor.gene.cds_frame import CDSFrame
from inscripta.biocantor.gene.feature import FeatureInterval
from inscripta.biocantor.gene.transcript import TranscriptInterval
from inscripta.biocantor.gene.variants import VariantInterval, VariantIntervalCollection
from inscripta.biocantor.location.location_impl import CompoundInterval, EmptyLocation, SingleInterval

from harness.common import AND, IFF, ITE, MINUS, NOT, OR, PLUS, blocks_of, chrom_parent, chunk_parent, layout_blocks, layout_params, layout_pre, sname
from vlib.obl import Obl
from vlib.sym import concretize, untraced

META = dict(
    functions=["VariantInterval.__init__ / _lift_over_chromosome_location_single_interval / _lift_over_chromosome_location_compound_interval / "
               "lift_over_location / alternative_genomic_sequence / parent_with_alternative_sequence / length_difference",
               "VariantIntervalCollection.__init__ (overlap refusal) / lift_over_location / alternative_genomic_sequence / parent_with_alternative_sequence",
               "incorporate_variants on FeatureInterval / TranscriptInterval / CDSInterval"],
    bounds=dict(quick="1 variant (alt length 0..3, symbolic reference span >= 1) x 1- or 2-block location, 2 variants x 1 block: all coordinates "
                      "unbounded symbolic integers (sequence-less objects); sequence legs on a 24-letter reference with realised coordinates",
                thorough="3 variants x <=2 blocks; chunk parents; more alt lengths"),
    outside="VCF record grouping (io.vcf.parser needs the absent PyVCF module); variants partially overlapping a block boundary (outside the property); "
            ">3 variants",
    stubs=["S1", "S2", "S3", "S4", "S5", "S6", "S11"],
    assumptions=["edit model: new sequence = ref[:vs] + alt + ref[ve:]; a reference position p < vs keeps its coordinate, p >= ve moves by len(alt)-(ve-vs)"],
)
ALTS = {0: "", 1: "A", 2: "AC", 3: "ACG"}


def _variant(vs, ve, a, par=None, guid=61):
    vtype = "SNV" if a == 1 else ("deletion" if a == 0 else "insertion")
    return VariantInterval(vs, ve, ALTS[a], vtype, guid=guid, parent_or_seq_chunk_parent=par)


def image_block(s, e, vs, ve, a):
    """edit-model image of block [s,e) (variant wholly inside or wholly outside it), as (new_s, new_e, deleted?)"""
    diff = a - (ve - vs)
    upstream = e <= vs
    downstream = s >= ve
    inside = AND(s <= vs, ve <= e)
    ns = ITE(downstream, s + diff, s)
    ne = ITE(upstream, e, e + diff)
    return ns, ne, upstream, downstream, inside


def single_variant_single_block(a, strand):
    def fn(vs, vl, s, l):
        ve, e = vs + vl, s + l
        v = _variant(vs, ve, a)
        loc = SingleInterval(s, e, strand)
        ns, ne, up, down, inside = image_block(s, e, vs, ve, a)
        res = v._lift_over_chromosome_location_single_interval(loc)
        if res is EmptyLocation():
            return ns == ne  # the block is exactly the deleted stretch: its image is empty
        return AND(res.start == ns, res.end == ne, res.strand is strand, OR(up, down, inside))

    return fn


def single_pre(vs, vl, s, l):
    ve, e = vs + vl, s + l
    if not (vs >= 0 and vl >= 1 and s >= 0 and l >= 1):
        return False
    return e <= vs or s >= ve or (s <= vs and ve <= e)


def deleted_block(a, strand):
    """a block lying entirely inside the DELETED stretch of a deletion becomes empty"""

    def fn(vs, vl, s, l):
        ve, e = vs + vl, s + l
        v = _variant(vs, ve, a)
        res = v._lift_over_chromosome_location_single_interval(SingleInterval(s, e, strand))
        return res is EmptyLocation() or bool(len(res) == 0)

    return fn


def single_variant_compound(a, strand, k):
    def fn(**kw):
        bl = layout_blocks(k, kw)
        vs, ve = kw["vs"], kw["vs"] + kw["vl"]
        v = _variant(vs, ve, a)
        loc = CompoundInterval([b[0] for b in bl], [b[1] for b in bl], strand)
        res = v._lift_over_chromosome_location_compound_interval(loc)
        exp = [image_block(s, e, vs, ve, a)[:2] for s, e in bl]
        rb = blocks_of(res)
        # adjacent images may have been merged by optimize_blocks: compare as position sets through the block ends
        p = kw["p"]
        from harness.common import member, mult

        return AND(mult(p, rb) == mult(p, exp), res.strand is strand if rb else True)

    return fn


def collection_single_block(a1, a2, strand):
    """two variants, one block; the edit model applies both edits to the reference coordinates"""

    def fn(v1s, v1l, gap, v2l, s, l):
        v1e = v1s + v1l
        v2s = v1e + gap
        v2e = v2s + v2l
        e = s + l
        coll = VariantIntervalCollection([_variant(v1s, v1e, a1, guid=61), _variant(v2s, v2e, a2, guid=62)], guid=63)
        res = coll.lift_over_location(SingleInterval(s, e, strand))
        d1, d2 = a1 - v1l, a2 - v2l
        # number of bases inserted/removed before the block start, before the block end
        ns = s + ITE(s >= v1e, d1, 0) + ITE(s >= v2e, d2, 0)
        ne = e + ITE(e > v1s, d1, 0) + ITE(e > v2s, d2, 0)
        if res is EmptyLocation():
            return ns == ne  # the block is exactly a deleted stretch
        return AND(res.start == ns, res.end == ne, res.strand is strand)

    return fn


def collection_pre(v1s, v1l, gap, v2l, s, l):
    if not (v1s >= 0 and v1l >= 1 and gap >= 1 and v2l >= 1 and s >= 0 and l >= 1):
        return False
    e = s + l
    for vs, ve in ((v1s, v1s + v1l), (v1s + v1l + gap, v1s + v1l + gap + v2l)):
        if not (e <= vs or s >= ve or (s <= vs and ve <= e)):
            return False
    return True


def overlap_refused():
    def fn(v1s, v1l, v2s, v2l):
        try:
            VariantIntervalCollection([_variant(v1s, v1s + v1l, 1, guid=61), _variant(v2s, v2s + v2l, 2, guid=62)], guid=63)
        except LocationOverlapException:
            return AND(v1s < v2s + v2l, v2s < v1s + v1l)
        return NOT(AND(v1s < v2s + v2l, v2s < v1s + v1l))

    return fn


def overlap_refused_k3():
    """three variants given in ANY order (coordinates independent): refused iff some pair overlaps"""

    def fn(v1s, v1l, v2s, v2l, v3s, v3l):
        iv = [(v1s, v1s + v1l), (v2s, v2s + v2l), (v3s, v3s + v3l)]
        some = OR(*[AND(iv[i][0] < iv[j][1], iv[j][0] < iv[i][1]) for i in range(3) for j in range(i + 1, 3)])
        try:
            c = VariantIntervalCollection([_variant(s, e, 1, guid=61 + k) for k, (s, e) in enumerate(iv)], guid=60)
        except LocationOverlapException:
            return some
        # accepted: no pair overlaps, and the collection holds the variants sorted by start
        st = [v.start for v in c.variant_intervals]
        return AND(NOT(some), st[0] <= st[1], st[1] <= st[2])

    return fn


# ------------------------------------------------------------------ sequence legs (realised)
REF = "ACGTTGCAAGCTTAGGCTAACGTC"  # 24 nt


def _apply(ref, edits):
    """literal substitution, right to left"""
    out = ref
    for vs, ve, alt in sorted(edits, reverse=True):
        out = out[:vs] + alt + out[ve:]
    return out


def _newpos(p, edits):
    """coordinate of reference position p on the alternative haplotype (p outside every edited stretch)"""
    q = p
    for vs, ve, alt in edits:
        if p >= ve:
            q += len(alt) - (ve - vs)
    return q


LAYOUTS = [[(2, 9), (11, 16)], [(0, 6), (6, 12)], [(3, 5), (7, 20)], [(1, 14), (15, 24)], [(4, 8), (18, 22)]]


def sequence_leg(n_variants, kind, chunked):
    def fn(**kw):
        names = sorted(kw)
        vals = concretize(*[kw[n] for n in names])
        kw = dict(zip(names, vals if isinstance(vals, list) else [vals]))
        with untraced():
            edits = []
            cur = kw.get("w", 0)
            for i in range(n_variants):
                vs = cur + kw["d%d" % i]
                ve = vs + kw["r%d" % i]
                edits.append((vs, ve, ALTS[kw["a%d" % i]]))
                cur = ve + 1
            if edits[-1][1] > len(REF):
                return True
            w = kw.get("w", 0)
            par = (lambda: chunk_parent(w, len(REF) - w, seq=REF[w:])) if chunked else (lambda: chrom_parent(REF))
            vs_objs = [VariantInterval(vs, ve, alt, "SNV" if len(alt) == ve - vs else "indel", guid=70 + i, parent_or_seq_chunk_parent=par())
                       for i, (vs, ve, alt) in enumerate(edits)]
            hap = vs_objs[0] if n_variants == 1 else VariantIntervalCollection(vs_objs, guid=80, parent_or_seq_chunk_parent=par())
            alt_genome = _apply(REF, edits)
            if str(hap.alternative_genomic_sequence) != alt_genome[w:]:
                return False
            if str(hap.parent_with_alternative_sequence.sequence) != alt_genome[w:]:
                return False
            for bl in LAYOUTS:
                if chunked and bl[0][0] < w:
                    continue
                skip = False
                for vs, ve, alt in edits:
                    touching = [b for b in bl if b[0] < ve and vs < b[1]]
                    if any(not (b[0] <= vs and ve <= b[1]) for b in touching):
                        skip = True  # partial overlap with a block boundary: outside the property
                if skip:
                    continue
                for strand in (PLUS, MINUS):
                    try:
                        if kind == "location":
                            obj = FeatureInterval([b[0] for b in bl], [b[1] for b in bl], strand, guid=90, parent_or_seq_chunk_parent=par())
                            lifted = hap.lift_over_location(obj.chunk_relative_location)
                            got = str(lifted.extract_sequence())
                        elif kind == "feature":
                            obj = FeatureInterval([b[0] for b in bl], [b[1] for b in bl], strand, guid=90, parent_or_seq_chunk_parent=par())
                            got = str(obj.incorporate_variants(hap).get_spliced_sequence())
                        elif kind == "transcript":
                            obj = TranscriptInterval([b[0] for b in bl], [b[1] for b in bl], strand, guid=90, parent_or_seq_chunk_parent=par())
                            got = str(obj.incorporate_variants(hap).get_spliced_sequence())
                        elif kind == "coding_tx":
                            # CDS = second half of the first exon .. first half of the second exon (UTR on both sides)
                            cb = [((bl[0][0] + bl[0][1]) // 2, bl[0][1]), (bl[1][0], (bl[1][0] + bl[1][1] + 1) // 2)]
                            if any(not (c[0] <= vs and ve <= c[1]) for vs, ve, alt in edits for c in cb if c[0] < ve and vs < c[1]):
                                continue  # a variant cutting a CDS block boundary: outside the property
                            obj = TranscriptInterval([b[0] for b in bl], [b[1] for b in bl], strand, [c[0] for c in cb], [c[1] for c in cb],
                                                     [CDSFrame.ZERO, CDSFrame.ZERO], guid=90, parent_or_seq_chunk_parent=par())
                            new = obj.incorporate_variants(hap)
                            got = str(new.get_spliced_sequence())
                            cpieces = []
                            for s_, e_ in cb:
                                cpieces.append(_apply(REF[s_:e_], [(vs - s_, ve - s_, alt) for vs, ve, alt in edits if s_ <= vs and ve <= e_]))
                            cexp = "".join(cpieces)
                            if strand is MINUS:
                                cexp = "".join({"A": "T", "C": "G", "G": "C", "T": "A"}[c] for c in reversed(cexp))
                            try:
                                cgot = str(new.cds.chunk_relative_location.extract_sequence()) if new.cds is not None else ""
                            except EmptyLocationException:
                                cgot = ""
                            if cgot != cexp:
                                return False
                            # the CDS stays inside the transcript's exons on the alternative haplotype
                            if cexp and not new.chunk_relative_location.contains(new.cds.chunk_relative_location):
                                return False
                        else:
                            obj = CDSInterval([b[0] for b in bl], [b[1] for b in bl], strand, [CDSFrame.ZERO, CDSFrame.ZERO], guid=90,
                                              parent_or_seq_chunk_parent=par())
                            new = obj.incorporate_variants(hap)
                            got = str(new.chunk_relative_location.extract_sequence())
                            got_inframe = str(new.extract_sequence())
                    except EmptyLocationException:
                        got = ""
                    # the reference object is left as it was (its blocks are not rewritten by the lift-over) and a second lift-over of the same object
                    # gives the same answer
                    if [(b_.start, b_.end) for b_ in obj.chromosome_location.blocks] != [tuple(x) for x in bl]:
                        return False
                    if kind == "location":
                        try:
                            if str(hap.lift_over_location(obj.chunk_relative_location).extract_sequence()) != got:
                                return False
                        except EmptyLocationException:
                            if got != "":
                                return False
                    elif kind in ("feature", "transcript"):
                        try:
                            if str(obj.incorporate_variants(hap).get_spliced_sequence()) != got:
                                return False
                        except EmptyLocationException:
                            if got != "":
                                return False
                    pieces = []
                    for s_, e_ in bl:
                        inner = [(vs - s_, ve - s_, alt) for vs, ve, alt in edits if s_ <= vs and ve <= e_]
                        pieces.append(_apply(REF[s_:e_], inner))
                    exp = "".join(pieces)
                    if strand is MINUS:
                        comp = {"A": "T", "C": "G", "G": "C", "T": "A"}
                        exp = "".join(comp[c] for c in reversed(exp))
                    if got != exp:
                        return False
                    if kind == "cds" and got and len(exp) >= 3:
                        # frames are regenerated from the start frame: the coding sequence is the edited spliced sequence in ONE frame
                        if got_inframe != exp[: len(exp) // 3 * 3]:
                            return False
            if kind == "location" and chunked and w > 0:
                # lift_over_location takes chunk-relative AND chromosome-relative locations: two locations that PRINT the same numbers in the two
                # coordinate systems (chromosome bl and chromosome bl+w) are lifted through the same haplotype object one after the other, in both orders
                def cut(bl_):
                    return any(not (b[0] <= vs and ve <= b[1]) for vs, ve, alt in edits for b in bl_ if b[0] < ve and vs < b[1])

                def expect(bl_, strand):
                    e_ = "".join(_apply(REF[s_:e_], [(vs - s_, ve - s_, alt) for vs, ve, alt in edits if s_ <= vs and ve <= e_]) for s_, e_ in bl_)
                    return "".join({"A": "T", "C": "G", "G": "C", "T": "A"}[c] for c in reversed(e_)) if strand is MINUS else e_

                def lifted_seq(loc):
                    try:
                        return str(hap.lift_over_location(loc).extract_sequence())
                    except EmptyLocationException:
                        return ""

                for n_, bl in enumerate(LAYOUTS):
                    bl2 = [(b[0] + w, b[1] + w) for b in bl]
                    if bl[0][0] < w or bl2[-1][1] > len(REF) or cut(bl) or cut(bl2):
                        continue
                    for strand in (PLUS, MINUS):
                        o1 = FeatureInterval([b[0] for b in bl], [b[1] for b in bl], strand, guid=91, parent_or_seq_chunk_parent=par())
                        o2 = FeatureInterval([b[0] for b in bl2], [b[1] for b in bl2], strand, guid=92, parent_or_seq_chunk_parent=par())
                        asks = [(o1.chromosome_location, expect(bl, strand)), (o2.chunk_relative_location, expect(bl2, strand))]
                        for loc, exp in (asks if n_ % 2 == 0 else reversed(asks)):
                            if lifted_seq(loc) != exp:
                                return False
            return True

    return fn


def haplotype_mapping_fn():
    """AnnotationCollection built with TWO variant collections (haplotypes): alternative_haplotype_mapping holds, per haplotype, exactly the genes its
    variants touch, each lifted onto THAT haplotype only (its spliced sequence = the reference gene with that haplotype's edit applied)"""
    from inscripta.biocantor.gene.collections import AnnotationCollection
    from inscripta.biocantor.gene.gene import GeneInterval

    GENES0 = [(2, 9), (12, 20)]
    # the same layout placed at offsets where the genes straddle or sit next to a 2^17 / 2^18 boundary (the binning scheme changes level there)
    OFFS = [0, 131072 - 6, 131072 - 15, 131072 - 3, 131072 + 4, 262144 - 14]
    LONG = {}

    def fn(a, ra, ia, b, rb, ib, off=0):
        a, ra, ia, b, rb, ib, off = concretize(a, ra, ia, b, rb, ib, off)
        with untraced():
            O = OFFS[off]
            REF0 = globals()["REF"]
            if O and O not in LONG:
                LONG[O] = (REF0 * ((O + 48) // len(REF0) + 1))[: O + 48]
            REF = REF0 if not O else LONG[O]
            GENES = [(O + s_, O + e_) for s_, e_ in GENES0]
            a, b = a + O, b + O
            edits = [(a, a + ra, ALTS[ia]), (b, b + rb, ALTS[ib])]
            for vs, ve, alt in edits:
                if ve > O + 24:
                    return True
                for s_, e_ in GENES:  # a variant cutting a gene boundary is outside the property
                    if vs < e_ and s_ < ve and not (s_ <= vs and ve <= e_):
                        return True
            par = lambda: chrom_parent(REF)  # noqa: E731
            genes = [GeneInterval([TranscriptInterval([s_], [e_], PLUS if i == 0 else MINUS, guid=90 + i, parent_or_seq_chunk_parent=par())], guid=95 + i,
                                  parent_or_seq_chunk_parent=par()) for i, (s_, e_) in enumerate(GENES)]
            haps = [VariantIntervalCollection([VariantInterval(vs, ve, alt, "SNV" if len(alt) == ve - vs else "indel", guid=70 + i, parent_or_seq_chunk_parent=par())],
                                              guid=80 + i, parent_or_seq_chunk_parent=par()) for i, (vs, ve, alt) in enumerate(edits)]
            coll = AnnotationCollection(genes=genes, variant_collections=haps, sequence_name="chr1", parent_or_seq_chunk_parent=par())
            mapping = coll.alternative_haplotype_mapping or {}
            comp = {"A": "T", "C": "G", "G": "C", "T": "A"}
            for i, (vs, ve, alt) in enumerate(edits):
                touched = [k for k, (s_, e_) in enumerate(GENES) if s_ <= vs and ve <= e_]
                got = mapping.get(80 + i, [])
                if len(got) != len(touched):
                    return False
                for g, k in zip(got, touched):
                    s_, e_ = GENES[k]
                    exp = _apply(REF[s_:e_], [(vs - s_, ve - s_, alt)])
                    if k == 1:
                        exp = "".join(comp[c] for c in reversed(exp))
                    try:
                        seq = str(g.transcripts[0].get_spliced_sequence())
                    except EmptyLocationException:
                        seq = ""
                    if seq != exp:
                        return False
            return set(mapping) <= {80, 81}

    return fn


def shared_variant_fn():
    """ONE VariantInterval object handed to two collections that live on DIFFERENT reference sequences (collections re-parent their members in place): each
    collection's alternative sequence is ITS OWN reference with the edit applied, in whatever order the two are built and read; likewise for collections of
    two variants sharing one member"""
    REF2 = "TTGACCGATAGGCTTAACGGATCC"  # 24 nt, differs from REF almost everywhere

    def fn(vs, r, ia, order, nvar):
        vs, r, ia, order, nvar = concretize(vs, r, ia, order, nvar)
        with untraced():
            alt = ALTS[ia]
            if vs + r > 12:
                return True
            v = VariantInterval(vs, vs + r, alt, "SNV" if len(alt) == r else "indel", guid=70)
            extra = [(16, 17, "G")] if nvar == 2 else []
            refs = [REF, REF2]

            def build(i):
                members = [v] + [VariantInterval(a, b, al, "SNV", guid=71 + i) for a, b, al in extra]
                return VariantIntervalCollection(members, guid=80 + i, parent_or_seq_chunk_parent=chrom_parent(refs[i]))

            def ok_for(c, i):
                return str(c.alternative_genomic_sequence) == _apply(refs[i], [(vs, vs + r, alt)] + extra)

            if order == 0:      # build both, then read both
                c0, c1 = build(0), build(1)
                return ok_for(c0, 0) and ok_for(c1, 1) and ok_for(c0, 0)
            if order == 1:      # read the first before the second exists
                c0 = build(0)
                a = ok_for(c0, 0)
                c1 = build(1)
                return a and ok_for(c1, 1) and ok_for(c0, 0)
            c1, c0 = build(1), build(0)
            return ok_for(c1, 1) and ok_for(c0, 0)

    return fn


def seq_pre(n_variants, chunked):
    def pre(**kw):
        for i in range(n_variants):
            if not (0 <= kw["d%d" % i] and kw["d%d" % i] <= (8 if n_variants == 1 else 3) and 1 <= kw["r%d" % i] and kw["r%d" % i] <= 2
                    and 0 <= kw["a%d" % i] and kw["a%d" % i] <= 3):
                return False
        if chunked:
            return 0 <= kw["w"] and kw["w"] <= 2
        return True

    return pre


def obligations(tier):
    out = []
    quick = tier == "quick"
    for a in (0, 1, 2, 3):
        for strand in (PLUS, MINUS):
            if quick and strand is MINUS and a in (1, 3):
                continue
            out.append(Obl("single_variant_block_alt%d_%s" % (a, sname(strand)), single_variant_single_block(a, strand),
                           dict(vs=int, vl=int, s=int, l=int), single_pre, budget=300, cost=15,
                           desc="one variant (alt length %d, any reference span) and one block, variant wholly inside or outside the block: "
                                "lifted block == edit-model image (upstream unchanged, downstream shifted, inside: end shifted)" % a,
                           bounds="unbounded symbolic coordinates", examples=[dict(vs=10, vl=2, s=5, l=20), dict(vs=10, vl=2, s=15, l=3), dict(vs=10, vl=2, s=1, l=4)]))
        if a < 2:
            out.append(Obl("deleted_block_alt%d" % a, deleted_block(a, PLUS), dict(vs=int, vl=int, s=int, l=int),
                           (lambda a: (lambda vs, vl, s, l: vs >= 0 and vl >= a + 1 and l >= 1 and vs + a <= s and s + l <= vs + vl))(a), budget=200, cost=8,
                           desc="a block lying entirely inside the deleted stretch becomes empty", bounds="unbounded symbolic coordinates",
                           examples=[dict(vs=10, vl=6, s=12, l=3)]))
        for k in ((2,) if quick else (2, 3)):
            if quick and a in (1,):
                continue
            params = dict(layout_params(k))
            params.update(vs=int, vl=int, p=int)

            def pre(k=k, **kw):
                if not (layout_pre(k, kw, min_len=1, min_gap=1) and kw["vs"] >= 0 and kw["vl"] >= 1):
                    return False
                vs, ve = kw["vs"], kw["vs"] + kw["vl"]
                for s, e in layout_blocks(k, kw):
                    if not (e <= vs or s >= ve or (s <= vs and ve <= e)):
                        return False
                return True

            out.append(Obl("single_variant_compound_alt%d_k%d" % (a, k), single_variant_compound(a, PLUS, k), params, pre, budget=600, cost=60 * (k - 1),
                           desc="one variant and a %d-block location (variant inside one block or outside all): lifted blocks == edit-model images" % k,
                           bounds="unbounded symbolic coordinates",
                           examples=[dict({"s0": 5, "vs": 7, "vl": 2, "p": 9}, **{"l%d" % i: 6 for i in range(k)}, **{"g%d" % i: 3 for i in range(1, k)})]))
        if a in ((0, 2) if quick else (0, 1, 2, 3)):
            # overlapping / nested 2-block layouts (signed gap, distinct starts): every block containing the variant is edited, whatever its rank
            params = dict(layout_params(2))
            params.update(vs=int, vl=int, p=int)

            def pre_ov(**kw):
                if not (kw["s0"] >= 0 and kw["l0"] >= 1 and kw["l1"] >= 1 and kw["g1"] > -kw["l0"] and kw["g1"] < 0 and kw["vs"] >= 0 and kw["vl"] >= 1):
                    return False
                vs, ve = kw["vs"], kw["vs"] + kw["vl"]
                for s_, e_ in layout_blocks(2, kw):
                    if not (e_ <= vs or s_ >= ve or (s_ <= vs and ve <= e_)):
                        return False
                return True

            for st in (PLUS, MINUS):
                out.append(Obl("single_variant_overlapping_blocks_alt%d_%s" % (a, sname(st)), single_variant_compound(a, st, 2), params, pre_ov, budget=600, cost=60,
                               desc="one variant and a location of two OVERLAPPING blocks (variant inside or outside each): every block is lifted to its edit-model image "
                                    "(multiplicities of covered positions preserved)", bounds="2 blocks overlapping or nested with distinct starts, unbounded symbolic coordinates",
                               examples=[dict(s0=5, l0=25, l1=26, g1=-1, vs=29, vl=1, p=30), dict(s0=5, l0=25, l1=6, g1=-10, vs=22, vl=2, p=24)]))
    for a1, a2 in (((0, 2), (2, 0), (3, 3), (1, 0)) if quick else itertools.product((0, 1, 2, 3), repeat=2)):
        out.append(Obl("collection_block_alt%d_alt%d" % (a1, a2), collection_single_block(a1, a2, PLUS),
                       dict(v1s=int, v1l=int, gap=int, v2l=int, s=int, l=int), collection_pre, budget=600, cost=60,
                       consts=dict(a1=a1, a2=a2),
                       desc="two non-overlapping variants (alt lengths %d, %d) and one block (each variant inside or outside it): lifted block == both edits applied" % (a1, a2),
                       bounds="unbounded symbolic coordinates", examples=[dict(v1s=10, v1l=1, gap=5, v2l=2, s=5, l=30), dict(v1s=10, v1l=1, gap=5, v2l=2, s=30, l=4)]))
    out.append(Obl("overlapping_variants_refused", overlap_refused(), dict(v1s=int, v1l=int, v2s=int, v2l=int),
                   lambda v1s, v1l, v2s, v2l: v1s >= 0 and v2s >= 0 and v1l >= 1 and v2l >= 1, budget=200, cost=10,
                   desc="a collection refuses overlapping variants and accepts disjoint ones", bounds="unbounded symbolic coordinates",
                   examples=[dict(v1s=3, v1l=4, v2s=5, v2l=2), dict(v1s=3, v1l=2, v2s=5, v2l=2)]))
    out.append(Obl("overlapping_variants_refused_k3", overlap_refused_k3(), dict(v1s=int, v1l=int, v2s=int, v2l=int, v3s=int, v3l=int),
                   lambda v1s, v1l, v2s, v2l, v3s, v3l: v1s >= 0 and v2s >= 0 and v3s >= 0 and v1l >= 1 and v2l >= 1 and v3l >= 1, budget=400, cost=30,
                   desc="a collection of three variants given in any order is refused exactly when some pair overlaps; accepted collections hold them sorted",
                   bounds="unbounded symbolic coordinates, 3 variants, every input order",
                   examples=[dict(v1s=10, v1l=3, v2s=12, v2l=1, v3s=20, v3l=1), dict(v1s=10, v1l=3, v2s=20, v2l=1, v3s=14, v3l=1)]))
    out.append(Obl("variant_shared_by_two_collections", shared_variant_fn(), dict(vs=int, r=int, ia=int, order=int, nvar=int),
                   lambda vs, r, ia, order, nvar: 0 <= vs and vs <= 10 and 1 <= r and r <= 2 and 0 <= ia and ia <= 3 and 0 <= order and order <= 2 and 1 <= nvar and nvar <= 2,
                   budget=600, cost=40,
                   desc="one VariantInterval object that is a member of two collections on different reference sequences: each collection's alternative_genomic_sequence is "
                        "its own reference with the edits applied, whichever collection is built or read first (1- and 2-variant collections)",
                   bounds="variant offsets 0..10, spans 1..2, alt lengths 0..3, 3 build/read orders, 1..2 variants per collection (realised)",
                   examples=[dict(vs=5, r=1, ia=3, order=0, nvar=1), dict(vs=2, r=2, ia=0, order=1, nvar=2)]))
    out.append(Obl("haplotype_mapping_at_bin_boundaries", haplotype_mapping_fn(), dict(a=int, ra=int, ia=int, b=int, rb=int, ib=int, off=int),
                   lambda a, ra, ia, b, rb, ib, off: 0 <= a and a <= 21 and ra == 1 and 1 <= ia and ia <= 2 and 0 <= b and b <= 21 and rb == 1 and ib == 0 and 1 <= off and off <= 5
                   and ((a % 3 == 0 and b % 4 == 1) or not quick), budget=900, cost=90, stubs=dict(bins="real"),
                   desc="the same two-haplotype collection placed where its genes straddle or sit next to a 2^17 / 2^18 coordinate (real bins()): each haplotype is "
                        "still mapped to exactly the genes its variant lies in, with the edited sequence",
                   bounds="5 placements around 131072 / 262144 on a long chromosome, variant offsets as in haplotype_mapping_two_collections (realised)",
                   examples=[dict(a=3, ra=1, ia=2, b=13, rb=1, ib=0, off=1), dict(a=15, ra=1, ia=1, b=5, rb=1, ib=0, off=2)]))
    out.append(Obl("haplotype_mapping_two_collections", haplotype_mapping_fn(), dict(a=int, ra=int, ia=int, b=int, rb=int, ib=int),
                   lambda a, ra, ia, b, rb, ib: 0 <= a and a <= 21 and 1 <= ra and ra <= 2 and 0 <= ia and ia <= 3 and 0 <= b and b <= 21 and 1 <= rb and rb <= 2
                   and 0 <= ib and ib <= 3 and ((a % 3 == 0 and b % 2 == 1 and ra == 1 and rb == 1) or not quick), budget=600 if quick else 5400, cost=60 if quick else 600,
                   desc="a collection built with two variant collections maps each haplotype to exactly the genes its variant lies in, each lifted onto that haplotype "
                        "alone (spliced sequence = reference gene with that one edit)", bounds="24-nt reference, two single-exon genes (+/-), one variant per haplotype at "
                        "every offset%s, spans 1..2, alt lengths 0..3 (realised)" % (" (a third / half of the offsets, span 1 in the quick tier)" if quick else ""),
                   examples=[dict(a=3, ra=1, ia=2, b=13, rb=1, ib=0), dict(a=3, ra=1, ia=2, b=5, rb=1, ib=1)]))
    for nv in (1, 2):
        for kind in ("location", "feature", "transcript", "cds", "coding_tx"):
            for chunked in ((False,) if quick and kind != "location" else (False, True)):
                if quick and nv == 2 and kind in ("transcript",):
                    continue
                params = {}
                for i in range(nv):
                    params.update({"d%d" % i: int, "r%d" % i: int, "a%d" % i: int})
                if chunked:
                    params["w"] = int
                ex = dict(d0=3, r0=1, a0=2)
                if nv == 2:
                    ex.update(d1=2, r1=2, a1=0)
                if chunked:
                    ex["w"] = 1
                out.append(Obl("sequence_%dvar_%s%s" % (nv, kind, "_chunk" if chunked else ""), sequence_leg(nv, kind, chunked), params,
                               seq_pre(nv, chunked), budget=900, cost=30 * nv * nv, consts=dict(nv=nv),
                               desc="%d variant(s) on a concrete reference%s: alternative_genomic_sequence == literal substitution; %s after incorporating the "
                                    "variants == reference blocks with the edits applied" % (nv, " chunk" if chunked else "",
                                                                                       {"location": "lifted location's sequence", "feature": "feature spliced sequence",
                                                                                        "transcript": "transcript spliced sequence", "cds": "CDS block sequence",
                                                                                        "coding_tx": "coding transcript's spliced sequence AND its CDS (kept inside the exons)"}[kind]),
                               bounds="24-nt reference, variant offsets 0..8 (2 variants: 0..3 each), reference spans 1..2, alt lengths 0..3 (realised); 5 two-block layouts x both strands (native loop)",
                               examples=[ex]))
    return out
