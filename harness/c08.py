"""C08 — serialised forms round-trip; identifiers are deterministic functions of content."""
import itertools

import harness.common  # noqa: F401
from inscripta.biocantor.exc import BioCantorException
from inscripta.biocantor.gene.cds import CDSInterval
from inscripta.biocantor.gene.cds_frame import CDSFrame
from inscripta.biocantor.gene.collections import AnnotationCollection
from inscripta.biocantor.gene.feature import FeatureInterval, FeatureIntervalCollection
from inscripta.biocantor.gene.gene import GeneInterval
from inscripta.biocantor.gene.transcript import TranscriptInterval
from inscripta.biocantor.gene.variants import VariantInterval, VariantIntervalCollection

from harness.common import AND, DEQ, MINUS, NOT, OR, PLUS, GENOME40, chrom_parent, chunk_parent, layout_blocks, layout_params, layout_pre, sname
from vlib.obl import Obl
from vlib.sym import concretize, untraced

META = dict(
    functions=["to_dict / from_dict on CDSInterval, TranscriptInterval, FeatureInterval, GeneInterval, FeatureIntervalCollection, VariantInterval, "
               "VariantIntervalCollection, AnnotationCollection", "AnnotationCollection.__getstate__/__setstate__ (through pickle)",
               "util.hashing.digest_object/_encode_object_for_digest/_order_set/_order_dict_of_possible_sets (pre-image templates extracted by running the "
               "real constructors with md5 replaced by a recorder)", "AbstractInterval._import_qualifiers_from_list/_export_qualifiers_to_list",
               "io.models schema load/dump + JSON (when importable)"],
    bounds=dict(quick="round trips with fully symbolic coordinates (<=2 blocks / 2 children, digest replaced by a constant); identifier legs with the REAL "
                      "digest on realised coordinates 0..11; pre-image injectivity by z3 string queries over templates extracted from the real constructors "
                      "(digit strings of ANY length); qualifier dictionaries with 3 keys in every insertion order x value order; pickle with and without chunk parent",
                thorough="2 genes x 2 transcripts, variants on chunk parents, 4 qualifier keys"),
    outside="pickle's byte format; cross-process PYTHONHASHSEED sweep (stand-in: set subclasses with every iteration order); MD5 collision freedom is assumed",
    stubs=["S1", "S2", "S4 (round-trip legs only)", "S5", "S6", "S11", "md5 recorder (pre-image legs)"],
    assumptions=["MD5 is collision-free on the pre-images considered (identity of pre-image == identity of guid)",
                 "decimal rendering of ints is canonical (no leading zeros): digit strings in 0|[1-9][0-9]* are in bijection with non-negative ints"],
    batch_cost=30.0,
)
Q = {"note": ["n1", "n0"], "gene": ["g"], "pseudo": []}


def _tx(ex, strand, cds=None, frames=None, par=None, q=None, guid=None, **kw):
    if cds:
        return TranscriptInterval([e[0] for e in ex], [e[1] for e in ex], strand, [c[0] for c in cds], [c[1] for c in cds],
                                  frames or [CDSFrame.ZERO] * len(cds), qualifiers=q, transcript_id="tx", transcript_symbol="sym",
                                  protein_id="prot", product="prod", sequence_name="chr1", guid=guid, parent_or_seq_chunk_parent=par, **kw)
    return TranscriptInterval([e[0] for e in ex], [e[1] for e in ex], strand, qualifiers=q, transcript_id="tx", sequence_name="chr1", guid=guid,
                              parent_or_seq_chunk_parent=par, **kw)


def _feat(ex, strand, par=None, q=None, guid=None):
    return FeatureInterval([e[0] for e in ex], [e[1] for e in ex], strand, qualifiers=q, sequence_name="chr1", feature_types=["a", "b"],
                           feature_name="fn", feature_id="fid", guid=guid, parent_or_seq_chunk_parent=par)


# ------------------------------------------------------------------ A. dictionary round trips (symbolic coordinates)
def roundtrip_fn(kind, k, strand, chunk):
    def fn(**kw):
        ex = layout_blocks(k, kw)
        par = chunk_parent(kw["w"], 24) if chunk else None
        if kind == "cds":
            o = CDSInterval([e[0] for e in ex], [e[1] for e in ex], strand, [CDSFrame.ONE] + [CDSFrame.TWO] * (k - 1), qualifiers=Q,
                            protein_id="p", product="pr", sequence_name="chr1", parent_or_seq_chunk_parent=par)
            r = CDSInterval.from_dict(o.to_dict(), par)
        elif kind == "tx":
            o = _tx(ex, strand, q=Q, par=par, is_primary_tx=True)
            r = TranscriptInterval.from_dict(o.to_dict(), par)
        elif kind == "txcds":
            cds = [(ex[0][0] + kw["co"], ex[0][1])] + ex[1:]
            o = _tx(ex, strand, cds=cds, frames=[CDSFrame.TWO] + [CDSFrame.ZERO] * (k - 1), q=Q, par=par)
            r = TranscriptInterval.from_dict(o.to_dict(), par)
        elif kind == "txphase":
            # the constructor also accepts GFF3 PHASES (CDSPhase); the serialised form must describe the frames the object actually uses
            from inscripta.biocantor.gene.cds_frame import CDSPhase

            cds = [(ex[0][0] + kw["co"], ex[0][1])] + ex[1:]
            o = _tx(ex, strand, cds=cds, frames=[CDSPhase.ONE] + [CDSPhase.TWO] * (k - 1), q=Q, par=par)
            r = TranscriptInterval.from_dict(o.to_dict(), par)
        elif kind == "feat":
            o = _feat(ex, strand, par=par, q=Q)
            r = FeatureInterval.from_dict(o.to_dict(), par)
        elif kind == "featnested":
            # two blocks sharing their start (the second nested in / extending the first) after an ordinary block: the exported lists are the
            # constructor's lists, whatever order the location object keeps its blocks in
            ex = [ex[0], (ex[1][0], ex[1][1]), (ex[1][0], ex[1][1] + kw["x"])]
            o = _feat(ex, strand, par=par, q=Q)
            r = FeatureInterval.from_dict(o.to_dict(), par)
        elif kind == "gene":
            t1 = _tx(ex[:1], strand, par=par, q=Q, guid=101)
            t2 = _tx(ex, strand, par=par, guid=102)
            o = GeneInterval([t1, t2], gene_id="gid", gene_symbol="gs", locus_tag="lt", sequence_name="chr1", qualifiers=Q, parent_or_seq_chunk_parent=par)
            r = GeneInterval.from_dict(o.to_dict(), par)
        elif kind == "fcoll":
            f1, f2 = _feat(ex[:1], strand, par=par, guid=101), _feat(ex, strand.reverse(), par=par, q=Q, guid=102)
            o = FeatureIntervalCollection([f1, f2], feature_collection_name="n", feature_collection_id="i", locus_tag="lt", sequence_name="chr1",
                                          qualifiers=Q, parent_or_seq_chunk_parent=par)
            r = FeatureIntervalCollection.from_dict(o.to_dict(), par)
        elif kind == "variant":
            o = VariantInterval(ex[0][0], ex[0][1], "AC", "insertion", phase_block=3, variant_name="v", variant_id="vid", qualifiers=Q,
                                parent_or_seq_chunk_parent=par)
            r = VariantInterval.from_dict(o.to_dict(), par)
        elif kind == "vcoll":
            v1 = VariantInterval(ex[0][0], ex[0][1], "A", "SNV", parent_or_seq_chunk_parent=par, guid=101)
            v2 = VariantInterval(ex[1][0], ex[1][1], "", "deletion", parent_or_seq_chunk_parent=par, guid=102)
            o = VariantIntervalCollection([v1, v2], variant_collection_name="vc", variant_collection_id="vi", sequence_name="chr1", qualifiers=Q,
                                          parent_or_seq_chunk_parent=par)
            r = VariantIntervalCollection.from_dict(o.to_dict(), par)
        else:
            g = GeneInterval([_tx(ex[:1], strand, par=par, guid=101)], gene_id="gid", parent_or_seq_chunk_parent=par, guid=103)
            fc = FeatureIntervalCollection([_feat(ex[1:], strand, par=par, guid=102)], parent_or_seq_chunk_parent=par, guid=104)
            o = AnnotationCollection(feature_collections=[fc], genes=[g], name="coll", sequence_name="chr1", qualifiers=Q,
                                     parent_or_seq_chunk_parent=par)
            r = AnnotationCollection.from_dict(o.to_dict(), par)
        d1, d2 = o.to_dict(), r.to_dict()
        extra = True
        alt = None
        if par is None:
            # the alternative constructors (from a Location object) describe the same object as the coordinate-list constructors
            if kind == "cds":
                alt = CDSInterval.from_location(o.chromosome_location, list(o.frames), qualifiers=Q, protein_id="p", product="pr", sequence_name="chr1")
            elif kind == "tx":
                alt = TranscriptInterval.from_location(o.chromosome_location, qualifiers=Q, transcript_id="tx", sequence_name="chr1", is_primary_tx=True)
            elif kind == "txcds":
                alt = TranscriptInterval.from_location(o.chromosome_location, cds=o.cds, qualifiers=Q, transcript_id="tx", transcript_symbol="sym", protein_id="prot",
                                                       product="prod", sequence_name="chr1")
            elif kind == "feat":
                alt = FeatureInterval.from_location(o.chromosome_location, qualifiers=Q, sequence_name="chr1", feature_types=["a", "b"], feature_name="fn", feature_id="fid")
        if alt is not None and not DEQ(alt.to_dict(), d1):
            return False
        if alt is not None and not (alt.guid == o.guid):
            return False
        if kind in ("txcds", "txphase"):
            # the rebuilt CDS uses the same frames, and the exported names are those frames
            extra = [f.name for f in o.cds.frames] == [f.name for f in r.cds.frames] == list(d1["cds_frames"]) and \
                [f.name for f in o.cds.chunk_relative_frames] == [f.name for f in r.cds.chunk_relative_frames]
        elif kind == "cds":
            extra = [f.name for f in o.frames] == [f.name for f in r.frames] == list(d1["cds_frames"])
        elif kind in ("feat", "featnested"):
            extra = AND(DEQ(list(d1["interval_starts"]), [e[0] for e in ex]), DEQ(list(d1["interval_ends"]), [e[1] for e in ex]),
                        DEQ([(b.start, b.end) for b in r.blocks], [(b.start, b.end) for b in o.blocks]))
        return AND(DEQ(d1, d2), o.start == r.start, o.end == r.end, type(o) is type(r), o.guid == r.guid,
                   DEQ(o.to_dict(), d1), extra)

    return fn


# ------------------------------------------------------------------ B. identifiers with the real digest (realised)
def _build(kind, coords, strand, frame, q=None, par=None):
    a, b, c, d = coords
    ex = [(a, b), (c, d)]
    if kind == "feat":
        return _feat(ex, strand, q=q, par=par)
    if kind == "tx":
        return _tx(ex, strand, cds=[(a, b), (c, d)], frames=[CDSFrame(frame), CDSFrame.ZERO], q=q, par=par)
    if kind == "txnc":
        return _tx(ex, strand, q=q, par=par)
    if kind == "cds":
        return CDSInterval([a, c], [b, d], strand, [CDSFrame(frame), CDSFrame.ZERO], qualifiers=q, parent_or_seq_chunk_parent=par)
    if kind == "gene":
        return GeneInterval([_tx(ex, strand, cds=[(a, b)], frames=[CDSFrame(frame)], par=par)], gene_id="g", qualifiers=q, parent_or_seq_chunk_parent=par)
    if kind == "variant":
        return VariantInterval(a, b, "AC", "insertion", qualifiers=q, parent_or_seq_chunk_parent=par)
    raise KeyError(kind)


def guid_functional_fn(kind):
    def fn(a, b, c, d, plus, frame):
        a, b, c, d, plus, frame = concretize(a, b, c, d, plus, frame)
        with untraced():
            strand = PLUS if plus else MINUS
            o = _build(kind, (a, b, c, d), strand, frame, q=Q)
            same = _build(kind, (a, b, c, d), strand, frame, q={"pseudo": [], "gene": ["g"], "note": ["n0", "n1"]})
            cls = type(o)
            r = cls.from_dict(o.to_dict())
            if not (o.guid == same.guid == r.guid and o.to_dict() == r.to_dict()):
                return False
            # changing one coordinate, the strand or the frame changes the identifier
            variants = []
            for i, delta in itertools.product(range(4), (1, 10)):
                co = [a, b, c, d]
                co[i] += delta
                if kind == "variant" and i > 1:
                    continue
                if co[0] < co[1] < co[2] < co[3]:
                    variants.append(_build(kind, tuple(co), strand, frame, q=Q))
            if kind != "variant":
                variants.append(_build(kind, (a, b, c, d), strand.reverse(), frame, q=Q))
            if kind in ("tx", "cds", "gene"):
                variants.append(_build(kind, (a, b, c, d), strand, (frame + 1) % 3, q=Q))
            return all(v.guid != o.guid for v in variants)

    return fn


def guid_many_blocks_fn(kind):
    """identifiers of objects with MANY blocks / long qualifier values (digest input of many kilobytes): equal content gives equal identifiers and a change of ONE
    coordinate anywhere (first, middle, last block; start or end), one frame, the strand or one character of a long qualifier value changes the identifier"""

    def fn(nb, which, what, big):
        nb, which, what, big = concretize(nb, which, what, big)
        with untraced():
            base = 100000000 if big else 1000
            starts = [base + 100 * i for i in range(nb)]
            ends = [s_ + 50 for s_ in starts]
            note = "x" * (9000 if big else 20)

            def build(st, en, strand=PLUS, f1=CDSFrame.ZERO, note=note):
                if kind == "feat":
                    return FeatureInterval(st, en, strand, qualifiers={"note": [note]}, sequence_name="chr1")
                if kind == "tx":
                    return TranscriptInterval(st, en, strand, qualifiers={"note": [note]}, sequence_name="chr1")
                fr = [CDSFrame.ZERO] * len(st)
                fr[which % len(st)] = f1
                return CDSInterval(st, en, strand, fr, qualifiers={"note": [note]}, sequence_name="chr1")

            o, twin = build(starts, ends), build(list(starts), list(ends))
            if o.guid != twin.guid or type(o).from_dict(o.to_dict()).guid != o.guid:
                return False
            i = [0, nb // 2, nb - 1][which]
            if what == 0:
                v = build(starts, ends[:i] + [ends[i] + 1] + ends[i + 1:])
            elif what == 1:
                v = build(starts[:i] + [starts[i] + 1] + starts[i + 1:], ends)
            elif what == 2:
                v = build(starts, ends, strand=MINUS)
            elif what == 3:
                v = build(starts, ends, note=note[:-1] + "y")
            else:
                if kind != "cds":
                    return True
                v = build(starts, ends, f1=CDSFrame.ONE)
            return v.guid != o.guid

    return fn


def qualifier_value_types_fn():
    """qualifier values of mixed types that Python considers equal (1, 1.0, True; 0, 0.0, False) are DIFFERENT values once imported as text: none is lost, and the
    dictionary form and identifier do not depend on the order in which they were given"""
    VALS = [1, 1.0, True, "1", 0, 0.0, False, "x"]

    def fn(i, j, k, l):
        i, j, k, l = concretize(i, j, k, l)
        with untraced():
            vals = [VALS[i], VALS[j], VALS[k], VALS[l]]
            objs = []
            for perm in (vals, vals[::-1], vals[1:] + vals[:1]):
                objs.append(FeatureInterval([3], [9], PLUS, qualifiers={"score": list(perm), "n": ["a"]}, sequence_name="chr1"))
            want = sorted({str(v) for v in vals})
            return all(sorted(o.to_dict()["qualifiers"]["score"]) == want for o in objs) and len({o.guid for o in objs}) == 1 and \
                all(sorted(o.qualifiers["score"]) == want for o in objs)

    return fn


# ------------------------------------------------------------------ C. pre-image injectivity (z3 strings over extracted templates)
SENT = [100003, 100019, 100043, 100057]


def _record_preimage(build):
    """run the REAL constructor with hashlib.md5 replaced by a recorder; returns the list of pre-image strings of every
    digest computed (the object's own guid is the last one)"""
    import inscripta.biocantor.util.hashing as H

    rec = []

    class _Fake:
        def __init__(self):
            self.parts = []

        def update(self, b):
            self.parts.append(b.decode("utf-8"))

        def hexdigest(self):
            import hashlib as real

            s = "".join(self.parts)
            rec.append(s)
            return real.md5(s.encode("utf-8")).hexdigest()

    class _FakeLib:
        md5 = _Fake

    orig = H.hashlib
    H.hashlib = _FakeLib
    try:
        build()
    finally:
        H.hashlib = orig
    return rec


def _template(pre, sentinels):
    """split a pre-image string at the decimal renderings of the sentinels -> [const, var, const, var, ..., const]"""
    import re

    parts = re.split("(" + "|".join(str(s) for s in sentinels) + ")", pre)
    out = []
    for i, p in enumerate(parts):
        out.append(("var", sentinels.index(int(p))) if i % 2 else ("const", p))
    return out


def preimage_fn(kind):
    def fn():
        import z3

        res = dict(queries=0, validated=0)
        builders = {}
        for plus, frame in itertools.product((True, False), (0, 1)):
            strand = PLUS if plus else MINUS
            pre = _record_preimage(lambda: _build(kind, tuple(SENT), strand, frame, q=Q))[-1]
            builders[(plus, frame)] = _template(pre, SENT)
            # validate the template against a second run with other values
            other = [7, 23, 1045, 99999]
            pre2 = _record_preimage(lambda: _build(kind, tuple(other), strand, frame, q=Q))[-1]
            rebuilt = "".join(p if t == "const" else str(other[p]) for t, p in builders[(plus, frame)])
            if rebuilt != pre2:
                return dict(verdict="ERROR", message="template extraction not faithful for %s: %r vs %r" % (kind, rebuilt[:120], pre2[:120]))
            res["validated"] += 1
        digit = z3.Union(z3.Re("0"), z3.Concat(z3.Range("1", "9"), z3.Star(z3.Range("0", "9"))))
        nvars = 2 if kind == "variant" else 4
        digits_le = 9
        failures = []
        from vlib import findings

        if any(reg.strip() == "True" for _, reg in findings.regions_for("C08", "preimage_injective_%s" % kind)):
            res["excluded_known_findings"] = [fid for fid, _ in findings.regions_for("C08", "preimage_injective_%s" % kind)]
            return dict(verdict="CONFIRMED", message="whole obligation lies in a recorded known-finding region (witness replayed separately)", **res)
        keys = sorted(builders)
        for k1, k2 in itertools.combinations_with_replacement(keys, 2):
            if kind == "variant" and (k1, k2) != (keys[0], keys[0]):
                continue
            if kind in ("feat", "txnc") and k1[1] != k2[1]:
                continue  # no frame in these pre-images
            xs = [z3.String("x%d" % i) for i in range(4)]
            ys = [z3.String("y%d" % i) for i in range(4)]

            def render(tpl, vs):
                terms = [z3.StringVal(p) if t == "const" else vs[p] for t, p in tpl]
                return z3.Concat(*terms) if len(terms) > 1 else terms[0]

            s = z3.Solver()
            for v in (xs + ys)[:] :
                s.add(z3.InRe(v, digit))
                s.add(z3.Length(v) <= 9)
            # valid coordinates: strictly increasing (as integers)
            for vs in (xs, ys):
                for u, v in zip(vs[:nvars], vs[1:nvars]):
                    s.add(z3.StrToInt(u) < z3.StrToInt(v))
            s.add(render(builders[k1], xs) == render(builders[k2], ys))
            if k1 == k2:
                s.add(z3.Or(*[xs[i] != ys[i] for i in range(nvars)]))
            from vlib.src2smt import cvc5_string_query

            r, model = cvc5_string_query(s.to_smt2(), 150000)
            res["queries"] += 1
            if r == "sat":
                vals = dict(x=[int(model.get("x%d" % i, "0")) for i in range(nvars)],
                            y=[int(model.get("y%d" % i, "0")) for i in range(nvars)], k1=list(k1), k2=list(k2))
                failures.append(vals)
                break
            if r != "unsat":
                # second opinion
                s.set("timeout", 60000)
                r2 = str(s.check())
                res["queries"] += 1
                if r2 == "sat":
                    m = s.model()
                    failures.append(dict(x=[int(m.eval(v, model_completion=True).as_string()) for v in xs[:nvars]],
                                         y=[int(m.eval(v, model_completion=True).as_string()) for v in ys[:nvars]], k1=list(k1), k2=list(k2)))
                    break
                if r2 != "unsat":
                    return dict(verdict="UNKNOWN", message="cvc5 %s / z3 %s on template pair %s %s" % (r, r2, k1, k2), queries=res["queries"])
        if failures:
            f = failures[0]
            return dict(verdict="REFUTED", cex=f, message="two different contents share one digest pre-image: %s" % f, **res)
        return dict(verdict="CONFIRMED", **res)

    def concrete(x, y, k1, k2, **kw):
        def mk(vals, key):
            vals = list(vals) + SENT[len(vals):]
            return _build(kind, tuple(vals), PLUS if key[0] else MINUS, key[1], q=Q)

        a, b = mk(x, k1), mk(y, k2)
        return a.guid != b.guid

    return fn, concrete


# ------------------------------------------------------------------ D. order / hash-seed independence
class OrderedSet(set):
    """a set whose iteration order is chosen by the harness (stand-in for PYTHONHASHSEED)"""

    def __init__(self, items, order):
        super().__init__(items)
        self._order = [list(items)[i] for i in order]

    def __iter__(self):
        return iter(self._order)


def order_fn(kind):
    keys = ["note", "gene", "zeta"]
    vals = {"note": ["b", "B", "a"], "gene": ["g"], "zeta": ["z2", "Z2"]}  # (values differing only in letter case are distinct content with a defined order)

    def fn(pk, pv, ps):
        pk, pv, ps = concretize(pk, pv, ps)
        with untraced():
            from inscripta.biocantor.util.hashing import digest_object

            kperm = list(itertools.permutations(range(3)))[pk]
            vperm = list(itertools.permutations(range(3)))[pv]
            q0 = {k: list(vals[k]) for k in keys}
            q1 = {}
            for i in kperm:
                k = keys[i]
                q1[k] = [vals[k][j] for j in vperm if j < len(vals[k])]
            a = _build(kind, (3, 9, 12, 20), PLUS, 1, q=q0)
            b = _build(kind, (3, 9, 12, 20), PLUS, 1, q=q1)
            if not (a.guid == b.guid and a.to_dict() == b.to_dict()):
                return False
            # set iteration order (hash seed stand-in)
            sperm = list(itertools.permutations(range(3)))[ps]
            s0 = {"k": {"b", "B", "a"}, "n": {"x": {"Ab1", "AB1", "c"}}}
            s1 = {"n": {"x": OrderedSet(["Ab1", "AB1", "c"], sperm)}, "k": OrderedSet(["b", "B", "a"], sperm)}
            if digest_object(s0, OrderedSet(["q", "Q", "r"], sperm), z=s0) != digest_object(s1, {"Q", "q", "r"}, z=s1):
                return False
            b.qualifiers = {k: OrderedSet(v, [x for x in sperm if x < len(v)]) for k, v in b.qualifiers.items()}
            return b._export_qualifiers_to_list() == a._export_qualifiers_to_list() and b.to_dict() == a.to_dict()

    return fn


# ------------------------------------------------------------------ E. pickle / model layer
def pickle_fn(parent_kind, with_variants=False):
    def fn(s0, l0, g1, l1, w):
        s0, l0, g1, l1, w = concretize(s0, l0, g1, l1, w)
        with untraced():
            import pickle

            if parent_kind == "chunk":
                par = chunk_parent(w, 24, seq=(GENOME40 * 2)[w: w + 24])
            elif parent_kind == "chrom":
                par = chrom_parent(GENOME40)
            elif parent_kind == "chrom_noid":
                # a chromosome sequence that was never given a name
                from inscripta.biocantor.location.location_impl import SingleInterval
                from inscripta.biocantor.parent import Parent, SequenceType
                from inscripta.biocantor.sequence import Alphabet, Sequence

                par = Parent(sequence=Sequence(GENOME40, Alphabet.NT_STRICT, type=SequenceType.CHROMOSOME), location=SingleInterval(0, 40, PLUS))
            else:
                par = None
            ex = [(s0, s0 + l0), (s0 + l0 + g1, s0 + l0 + g1 + l1)]
            g = GeneInterval([_tx(ex, PLUS, cds=[ex[1]], par=par, q=Q)], gene_id="gid", parent_or_seq_chunk_parent=par)
            fc = FeatureIntervalCollection([_feat(ex[:1], MINUS, par=par, q=Q)], parent_or_seq_chunk_parent=par)
            vcs = None
            if with_variants:
                vcs = [VariantIntervalCollection([VariantInterval(ex[0][0], ex[0][0] + 1, "A", "SNV", parent_or_seq_chunk_parent=par)], variant_collection_id="vc",
                                                 parent_or_seq_chunk_parent=par)]
            coll = AnnotationCollection(feature_collections=[fc], genes=[g], variant_collections=vcs, name="coll", sequence_name="chr1" if parent_kind != "chrom_noid" else None,
                                        qualifiers=Q, parent_or_seq_chunk_parent=par)
            back = pickle.loads(pickle.dumps(coll))
            ok = back.to_dict() == coll.to_dict() and back.guid == coll.guid and back.start == coll.start and back.end == coll.end
            ok = ok and [c.guid for c in back.iter_children()] == [c.guid for c in coll.iter_children()]
            if par is not None:
                ok = ok and str(back.genes[0].transcripts[0].get_spliced_sequence()) == str(coll.genes[0].transcripts[0].get_spliced_sequence())
                ok = ok and back.to_dict(export_parent=True) == coll.to_dict(export_parent=True)
                # importing an exported dictionary does not consume it: the same dictionary imports again to the same collection
                import copy

                d = coll.to_dict(export_parent=True)
                snap = copy.deepcopy(d)
                r1 = AnnotationCollection.from_dict(d)
                ok = ok and d == snap
                r2 = AnnotationCollection.from_dict(d)
                ok = ok and r1.to_dict(export_parent=True) == snap and r2.to_dict(export_parent=True) == snap and r2.guid == coll.guid
                ok = ok and str(r2.genes[0].transcripts[0].get_spliced_sequence()) == str(coll.genes[0].transcripts[0].get_spliced_sequence())
            # explicit bounds survive
            c2 = AnnotationCollection(genes=[GeneInterval([_tx(ex, PLUS)], gene_id="g2")], start=0, end=ex[1][1] + 5)
            b2 = pickle.loads(pickle.dumps(c2))
            return ok and (b2.start, b2.end) == (0, ex[1][1] + 5) and b2.guid == c2.guid

    return fn


def chunk_relative_dict_fn(strand):
    """chunk-relative dictionary export (to_dict(chromosome_relative_coordinates=False)) of a coding transcript on a chunk that may cut it anywhere, re-imported
    as a stand-alone annotation of the chunk sequence: same CDS blocks, the chunk-relative frames, the same protein; CDSInterval and TranscriptInterval export
    the same CDS"""

    def fn(s0, l0, g1, l1, f0, w):
        s0, l0, g1, l1, f0, w = concretize(s0, l0, g1, l1, f0, w)
        with untraced():
            from harness.cdsmodel import consistent_frames
            from inscripta.biocantor.gene.cds_frame import CDSFrame

            Lc = 24
            genome = GENOME40 * 2
            ex = [(s0, s0 + l0), (s0 + l0 + g1, s0 + l0 + g1 + l1)]
            frames = [CDSFrame(f) for f in consistent_frames([l0, l1], strand, f0)]
            on_chunk = _tx(ex, strand, cds=ex, frames=frames, par=chunk_parent(w, Lc, seq=genome[w: w + Lc]))
            if on_chunk.cds.chunk_relative_location.is_empty:
                return True
            exported = on_chunk.to_dict(chromosome_relative_coordinates=False)
            want_blocks = [(b.start, b.end) for b in on_chunk.chunk_relative_cds_blocks]
            want_frames = [f.name for f in on_chunk.cds.chunk_relative_frames]
            # outside the claim (as in C05/C17): a 5'-most visible CDS block that is not longer than its own frame offset - the library's frame model does not
            # define where the reading frame resumes then
            i5 = 0 if strand is PLUS else -1
            if want_blocks[i5][1] - want_blocks[i5][0] <= on_chunk.cds.chunk_relative_frames[i5].value:
                return True
            try:
                want_protein = str(on_chunk.get_protein_sequence())
            except (BioCantorException, ValueError) as e:  # noqa
                want_protein = type(e).__name__
            ok = [tuple(x) for x in zip(exported["cds_starts"], exported["cds_ends"])] == want_blocks and exported["cds_frames"] == want_frames
            ok = ok and on_chunk.cds.to_dict(chromosome_relative_coordinates=False)["cds_frames"] == want_frames
            standalone = chrom_parent(genome[w: w + Lc], name="chunkseq")
            back = TranscriptInterval.from_dict(exported, standalone)
            try:
                got_protein = str(back.get_protein_sequence())
            except (BioCantorException, ValueError) as e:  # noqa
                got_protein = type(e).__name__
            ok = ok and [f.name for f in back.cds.frames] == want_frames and got_protein == want_protein
            ok = ok and str(back.get_spliced_sequence()) == str(on_chunk.get_spliced_sequence())
            # the chromosome-relative dictionary of the same object is the whole-chromosome one
            return ok and on_chunk.to_dict() == _tx(ex, strand, cds=ex, frames=frames).to_dict()

    return fn


def same_name_genomes_fn():
    """two LONG chromosomes with the same name, type, alphabet and length but different bases exported and re-imported in one process (from_dict and pickle):
    every collection comes back with its OWN sequence (a loader that remembers parents by name and length would hand out the first one)"""

    def fn(e, d, where, order):
        e, d, where, order = concretize(e, d, where, order)
        with untraced():
            import pickle

            n = 2 ** e + d if e < 20 else 100000 + d
            unit = "ACGTTGCAAGCTTAGGCTAACGTCA"
            base = (unit * (n // len(unit) + 1))[:n]
            pos = [30, n // 2, n - 30][where]
            other = base[:pos] + ("A" if base[pos] != "A" else "C") + base[pos + 1:]
            colls = []
            for data in (base, other):
                par = chrom_parent(data)
                ex = [(pos - 10, pos + 10)]
                colls.append(AnnotationCollection(genes=[GeneInterval([_tx(ex, PLUS, par=par)], gene_id="gid", parent_or_seq_chunk_parent=par)], sequence_name="chr1",
                                                  parent_or_seq_chunk_parent=par))
            seqs = [str(c.genes[0].transcripts[0].get_spliced_sequence()) for c in colls]
            ok = seqs[0] != seqs[1]
            for i in ((0, 1, 0) if order == 0 else (1, 0, 1)):
                d_ = colls[i].to_dict(export_parent=True)
                r = AnnotationCollection.from_dict(d_)
                ok = ok and str(r.genes[0].transcripts[0].get_spliced_sequence()) == seqs[i] and r.to_dict(export_parent=True) == d_
                r2 = pickle.loads(pickle.dumps(colls[i]))
                ok = ok and str(r2.genes[0].transcripts[0].get_spliced_sequence()) == seqs[i]
            return ok

    return fn


def models_importable():
    try:
        import inscripta.biocantor.io.models  # noqa: F401

        return True
    except Exception:  # noqa
        return False


def schema_fn(with_variants=False):
    def fn(s0, l0, g1, l1):
        s0, l0, g1, l1 = concretize(s0, l0, g1, l1)
        with untraced():
            import json

            from inscripta.biocantor.io.models import AnnotationCollectionModel

            ex = [(s0, s0 + l0), (s0 + l0 + g1, s0 + l0 + g1 + l1)]
            g = GeneInterval([_tx(ex, MINUS, cds=[ex[0]], q=Q)], gene_id="gid", gene_symbol="gs", locus_tag="lt", qualifiers=Q)
            fc = FeatureIntervalCollection([_feat(ex, PLUS, q=Q)], feature_collection_name="fcn")
            vcs = None
            if with_variants:
                vcs = [VariantIntervalCollection([VariantInterval(ex[0][0], ex[0][0] + 1, "A", "SNV"), VariantInterval(ex[1][0], ex[1][1], "", "deletion", phase_block=2)],
                                                 variant_collection_id="vc", variant_collection_name="vn", qualifiers=Q)]
            coll = AnnotationCollection(feature_collections=[fc], genes=[g], variant_collections=vcs, name="coll", sequence_name="chr1", qualifiers=Q)
            d = coll.to_dict()
            text = json.dumps(d, default=str)
            model = AnnotationCollectionModel.Schema().load(json.loads(text))
            if with_variants and AnnotationCollectionModel.from_annotation_collection(coll).to_annotation_collection().to_dict() != d:
                return False
            back = model.to_annotation_collection()
            d2 = back.to_dict()
            dumped = AnnotationCollectionModel.Schema().dump(model)
            return json.loads(json.dumps(d2, default=str)) == json.loads(text) and back.guid == coll.guid and \
                [c.guid for c in back.iter_children()] == [c.guid for c in coll.iter_children()] and dumped["genes"][0]["gene_id"] == "gid"

    return fn


def obligations(tier):
    out = []
    quick = tier == "quick"
    kinds = [("cds", 2), ("tx", 2), ("txcds", 2), ("txphase", 2), ("feat", 2), ("featnested", 2), ("gene", 2), ("fcoll", 2), ("variant", 1), ("vcoll", 2), ("acoll", 2)]
    for kind, k in kinds:
        for strand in ((PLUS,) if quick and kind in ("variant", "vcoll", "gene", "fcoll", "acoll") else (PLUS, MINUS)):
            for chunk in ((False,) if quick and kind not in ("tx", "feat", "acoll") else (False, True)):
                params = dict(layout_params(k))
                if chunk:
                    params["w"] = int
                if kind in ("txcds", "txphase"):
                    params["co"] = int
                if kind == "featnested":
                    params["x"] = int

                def pre(k=k, chunk=chunk, kind=kind, **kw):
                    if not layout_pre(k, kw, min_len=1, min_gap=1):
                        return False
                    if kind in ("txcds", "txphase") and not (0 <= kw["co"] and kw["co"] < kw["l0"]):
                        return False
                    if kind == "featnested" and not (1 <= kw["x"] and (not chunk or kw["x"] <= 3)):
                        return False
                    if chunk:
                        end = kw["s0"] + sum(kw["l%d" % i] for i in range(k)) + sum(kw["g%d" % i] for i in range(1, k))
                        return kw["w"] >= 0 and kw["w"] <= kw["s0"] and end <= kw["w"] + 24
                    return True

                ex = dict({"s0": 103, "w": 100, "co": 1, "x": 2}, **{"l%d" % i: 4 for i in range(k)}, **{"g%d" % i: 2 for i in range(1, k)})
                ex = {kk: v for kk, v in ex.items() if kk in params}
                out.append(Obl("roundtrip_%s_%s%s" % (kind, sname(strand), "_chunk" if chunk else ""), roundtrip_fn(kind, k, strand, chunk),
                               params, pre, budget=400, cost=(60 if chunk else 8) * (3 if kind in ("gene", "fcoll", "acoll", "vcoll") else 1),
                               desc="from_dict(to_dict(x)) has an equal dictionary form, equal bounds, equal guid; to_dict is repeatable",
                               bounds="%d blocks/children, symbolic coordinates%s" % (k, ", chunk of length 24 at symbolic offset" if chunk else ""),
                               examples=[ex]))
    for kind in ("feat", "txnc", "cds", "variant"):
        f, c = preimage_fn(kind)
        out.append(Obl("preimage_injective_%s" % kind, f, {}, None, kind="smt", twin=False, cost=60, concrete=c,
                       desc="digest pre-image template (extracted by running the real constructor with md5 recorded, validated on a second run) is injective "
                            "in the coordinates for digit strings of any length <= 9, and templates of different strand/frame never coincide (cvc5/z3 strings)",
                       bounds="all strictly increasing non-negative coordinates up to 9 digits"))
    for kind in ("feat", "tx", "cds", "gene", "variant"):
        out.append(Obl("guid_functional_%s" % kind, guid_functional_fn(kind), dict(a=int, b=int, c=int, d=int, plus=bool, frame=int),
                       lambda a, b, c, d, plus, frame: 0 <= a and a < b and b < c and c < d and d <= 9 and 0 <= frame and frame <= 2,
                       budget=900, cost=60,
                       desc="real MD5 digests: equal content (any qualifier order) and dictionary round trip give equal guids; changing one coordinate, "
                            "the strand or the start frame changes the guid",
                       bounds="every 2-block layout within [0,9], both strands, 3 start frames (realised)", examples=[dict(a=1, b=3, c=5, d=8, plus=True, frame=1)]))
        out.append(Obl("order_independent_%s" % kind, order_fn(kind), dict(pk=int, pv=int, ps=int),
                       lambda pk, pv, ps: 0 <= pk and pk < 6 and 0 <= pv and pv < 6 and 0 <= ps and ps < 6, budget=600, cost=30,
                       desc="guid and to_dict are identical for every insertion order of 3 qualifier keys, every order of the values and every iteration "
                            "order of value sets (set subclass with chosen order)", bounds="6 x 6 x 6 orders", examples=[dict(pk=3, pv=4, ps=5)]))
    for pk in ("none", "chrom", "chunk"):
        out.append(Obl("pickle_%s" % pk, pickle_fn(pk), dict(s0=int, l0=int, g1=int, l1=int, w=int),
                       lambda s0, l0, g1, l1, w: 0 <= w and w <= 2 and w <= s0 and s0 <= 4 and 1 <= l0 and l0 <= 3 and 1 <= g1 and g1 <= 2 and 3 <= l1 and l1 <= 5,
                       budget=600, cost=40,
                       desc="pickle round trip of an AnnotationCollection (%s parent): equal dictionary form, guid, bounds, children, sequence" % pk,
                       bounds="1 gene + 1 feature collection, realised small coordinates", examples=[dict(s0=3, l0=2, g1=1, l1=4, w=1)]))
    for pk, wv in (("chrom_noid", False), ("chrom", True), ("none", True)):
        out.append(Obl("pickle_%s%s" % (pk, "_variants" if wv else ""), pickle_fn(pk, wv), dict(s0=int, l0=int, g1=int, l1=int, w=int),
                       lambda s0, l0, g1, l1, w: w == 0 and 0 <= s0 and s0 <= 4 and 1 <= l0 and l0 <= 3 and 1 <= g1 and g1 <= 2 and 3 <= l1 and l1 <= 5,
                       budget=600, cost=40,
                       desc="pickle round trip of an AnnotationCollection (%s parent%s): equal dictionary form, guid, bounds, children, sequence" % (
                           "un-named chromosome" if pk == "chrom_noid" else pk, ", with a variant collection" if wv else ""),
                       bounds="1 gene + 1 feature collection%s, realised small coordinates" % (" + 1 variant collection" if wv else ""), examples=[dict(s0=3, l0=2, g1=1, l1=4, w=0)]))
    for kind in ("feat", "tx", "cds"):
        out.append(Obl("guid_many_blocks_%s" % kind, guid_many_blocks_fn(kind), dict(nb=int, which=int, what=int, big=int),
                       lambda nb, which, what, big: (nb == 200 or nb == 400 or nb == 600) and 0 <= which and which <= 2 and 0 <= what and what <= 4 and 0 <= big and big <= 1,
                       budget=900, cost=60,
                       desc="%s with 200 / 400 / 600 blocks (9-digit coordinates and a 9000-character qualifier value in the big variant: digest input of many kilobytes): "
                            "equal content => equal identifier (also through from_dict); one changed start or end in the first / middle / last block, the strand, one "
                            "frame, or one character of the long qualifier value => different identifier (real MD5)" % kind,
                       bounds="3 block counts x 3 positions x 5 kinds of change x small / big coordinates (closed by the solver)", examples=[dict(nb=400, which=1, what=0, big=1)]))
    nv = 8
    out.append(Obl("qualifier_values_of_mixed_types", qualifier_value_types_fn(), dict(i=int, j=int, k=int, l=int),
                   lambda i, j, k, l: 0 <= i and i < j and j < k and k < l and l < nv, budget=600, cost=30,
                   desc="qualifier value lists mixing 1, 1.0, True, '1', 0, 0.0, False, 'x' (values Python considers equal across types): every distinct TEXT survives the "
                        "import, and dictionary form and identifier do not depend on the order given", bounds="every 4-subset of the 8 values x 3 orders (closed by the solver)",
                   examples=[dict(i=0, j=1, k=2, l=7)]))
    for strand in (PLUS, MINUS):
        out.append(Obl("chunk_relative_dict_%s" % sname(strand), chunk_relative_dict_fn(strand), dict(s0=int, l0=int, g1=int, l1=int, f0=int, w=int),
                       lambda s0, l0, g1, l1, f0, w: 8 <= s0 and s0 <= 9 and 4 <= l0 and l0 <= 6 and 2 <= g1 and g1 <= 3 and 4 <= l1 and l1 <= 6 and 0 <= f0 and f0 <= 2
                       and 0 <= w and w <= 30, budget=900, cost=60,
                       desc="chunk-relative dictionary export of a coding transcript whose chunk may cut it anywhere, re-imported on the chunk sequence alone: same CDS "
                            "blocks, frames = chunk_relative_frames (also from CDSInterval.to_dict), same protein and spliced sequence; chromosome-relative export unchanged",
                       bounds="2 exons 4..6 nt (intron 2..3) at 8..9, start frames 0..2, chunk of 24 nt starting at 0..30 (realised); a visible 5' block not longer than its frame offset is outside the claim",
                       examples=[dict(s0=8, l0=5, g1=2, l1=6, f0=0, w=10), dict(s0=9, l0=4, g1=3, l1=5, f0=1, w=2)]))
    out.append(Obl("same_name_long_genomes", same_name_genomes_fn(), dict(e=int, d=int, where=int, order=int),
                   lambda e, d, where, order: (e == 12 or e == 16 or e == 17 or e == 20) and -1 <= d and d <= 1 and 0 <= where and where <= 2 and 0 <= order and order <= 1,
                   budget=900, cost=60,
                   desc="two chromosomes with the same name / type / alphabet / length that differ in ONE base (lengths 4096, 65536, 131072, 100000, each -1/0/+1), "
                        "exported with their parent and re-imported alternately in one process (from_dict and pickle): each comes back with its own sequence",
                   bounds="12 lengths x 3 edit positions x 2 orders (closed by the solver)", examples=[dict(e=20, d=1, where=1, order=0), dict(e=12, d=0, where=0, order=1)]))
    if models_importable():
        out.append(Obl("schema_json_roundtrip_variants", schema_fn(True), dict(s0=int, l0=int, g1=int, l1=int),
                       lambda s0, l0, g1, l1: 0 <= s0 and s0 <= 3 and 1 <= l0 and l0 <= 3 and 1 <= g1 and g1 <= 2 and 1 <= l1 and l1 <= 3,
                       budget=600, cost=60,
                       desc="collection WITH variants: to_dict -> JSON -> AnnotationCollectionModel.Schema().load / from_annotation_collection -> to_annotation_collection "
                            "reproduces dictionary form and guids",
                       bounds="1 gene + 1 feature collection + 1 variant collection (SNV + deletion), realised small coordinates", examples=[dict(s0=1, l0=2, g1=1, l1=3)]))
        out.append(Obl("schema_json_roundtrip", schema_fn(), dict(s0=int, l0=int, g1=int, l1=int),
                       lambda s0, l0, g1, l1: 0 <= s0 and s0 <= 3 and 1 <= l0 and l0 <= 3 and 1 <= g1 and g1 <= 2 and 1 <= l1 and l1 <= 3,
                       budget=600, cost=60,
                       desc="to_dict -> JSON -> AnnotationCollectionModel.Schema().load -> to_annotation_collection reproduces dictionary form and guids",
                       bounds="1 gene + 1 feature collection, realised small coordinates", examples=[dict(s0=1, l0=2, g1=1, l1=3)]))
    return out
