"""C10 — answers do not depend on call history; operations never change their operands."""
import itertools
import warnings

import harness.common  # noqa: F401
from inscripta.biocantor.gene.biotype import Biotype
from inscripta.biocantor.gene.cds import CDSInterval
from inscripta.biocantor.gene.cds_frame import CDSFrame
from inscripta.biocantor.gene.collections import AnnotationCollection
from inscripta.biocantor.gene.feature import FeatureInterval, FeatureIntervalCollection
from inscripta.biocantor.gene.gene import GeneInterval
from inscripta.biocantor.gene.transcript import TranscriptInterval
from inscripta.biocantor.location.location_impl import CompoundInterval, EmptyLocation, SingleInterval
from inscripta.biocantor.parent import Parent, SequenceType
from inscripta.biocantor.sequence import Alphabet, Sequence

from harness.common import AND, DEQ, MINUS, NOT, OR, PLUS, GENOME40, blocks_of, chrom_parent, chunk_parent, layout_blocks, layout_params, layout_pre, sname
from vlib.obl import Obl
from vlib.sym import concretize, untraced

META = dict(
    functions=["Parent (class-level lru_cache) / _unique_value_or_none / Parent.strand lazy slot", "methodtools.lru_cache'd properties and methods of "
               "AbstractInterval, CDSInterval, TranscriptInterval, AnnotationCollection", "CDSInterval._chunk_relative_codon_locations_cached switch",
               "lazy _single_interval_store / _is_overlapping / _sequence slots of locations", "AbstractFeatureInterval._merge_qualifiers / export_qualifiers / to_gff",
               "GeneInterval.get_merged_transcript, FeatureIntervalCollection.get_merged_feature"],
    bounds=dict(quick="H2 (real memoisation ON, body run natively): every schedule of 2 operations out of a per-class catalogue (10-24 operations incl. "
                      "'evict the global Parent cache' and 'use an unrelated twin'), on location / sequence / CDS / transcript / feature / gene / feature "
                      "collection / annotation collection objects built on whole-chromosome and chunk parents: the last answer (value AND type) equals a "
                      "fresh twin's and every operand snapshot (to_dict, str, hash, guid, blocks) is unchanged. H1 (symbolic coordinates): one step from every "
                      "state of the hand-written lazy slots of locations",
                thorough="schedules of 3 operations"),
    outside="histories longer than 3 whose effect is not visible after 3 steps under real memoisation; multi-threaded use",
    stubs=["H2: none inside the body (native execution); the schedule indexes are the symbolic variables, closed by the solver",
           "H1: S1 S2 S3 S6 S11"],
    assumptions=["answers are compared through a normal form: (type name, string form / recursive container form)"],
    batch_cost=40.0,
)


def norm(x):
    """normal form that keeps value AND type"""
    if x is None or isinstance(x, (bool, int, str, float)):
        return (type(x).__name__, x)
    if isinstance(x, (list, tuple)):
        return (type(x).__name__, tuple(norm(v) for v in x))
    if isinstance(x, (set, frozenset)):
        return (type(x).__name__, tuple(sorted(map(repr, map(norm, x)))))
    if isinstance(x, dict):
        return ("dict", tuple(sorted((repr(k), norm(v)) for k, v in x.items())))
    if hasattr(x, "__next__"):
        return ("iterator", tuple(norm(v) for v in x))
    if isinstance(x, Sequence):
        return ("Sequence", str(x), x.alphabet.name, norm(x.parent.location) if x.parent is not None and x.parent.location is not None else None)
    if isinstance(x, (SingleInterval, CompoundInterval)) or x is EmptyLocation():
        return (type(x).__name__, str(x), x.parent.id if x.parent is not None else None)
    if hasattr(x, "to_dict"):
        return (type(x).__name__, norm(x.to_dict()))
    return (type(x).__name__, str(x))


def call(f, obj):
    try:
        return ("ok", norm(f(obj)))
    except Exception as e:  # noqa
        return ("raised", type(e).__name__)


def evict(_):
    for i in range(1001):
        Parent(id="evict%d" % i)
    return Parent.cache_info().currsize <= 1000


# ------------------------------------------------------------------ object catalogue (fresh twins on demand)
def mk_single(par_kind):
    return SingleInterval(5, 20, MINUS, parent=_par(par_kind))


def mk_unstranded(par_kind):
    from inscripta.biocantor.location.strand import Strand

    return SingleInterval(5, 20, Strand.UNSTRANDED, parent=_par(par_kind))


def mk_aa_minus(par_kind):
    return SingleInterval(2, 9, MINUS, parent=Parent(id="prot", sequence=Sequence("MKVLAAGICKW", Alphabet.AA)))


def mk_compound(par_kind):
    return CompoundInterval([3, 12, 25], [9, 20, 31], PLUS, parent=_par(par_kind))


def mk_compound_ov(par_kind):
    """strictly overlapping blocks (no empty block, no touching pair)"""
    return CompoundInterval([3, 8, 25], [12, 20, 31], MINUS, parent=_par(par_kind))


def _hier(depth3=True, other_top=False, exon=(3, 9)):
    """exon on a feature placed on a chromosome placed (depth3) on an assembly: built with nested parent= as users do"""
    top = Parent(id="asm2" if other_top else "asm1", sequence_type="assembly") if depth3 else None
    # the chromosome level is IDENTICAL in both variants except for having / not having a parent of its own
    chrom = Parent(id="chr1", sequence_type=SequenceType.CHROMOSOME, location=SingleInterval(100, 400, PLUS), parent=top)
    feat = Parent(id="feat", sequence_type="feature", location=SingleInterval(10, 40, MINUS), parent=chrom)
    return SingleInterval(exon[0], exon[1], PLUS, parent=feat)


def mk_deep(par_kind):
    return _hier(True)


def _anc(o):
    out = []
    for t in ("feature", SequenceType.CHROMOSOME, "assembly"):
        out.append(o.has_ancestor_of_type(t))
        try:
            out.append(str(o.lift_over_to_first_ancestor_of_type(t)))
        except Exception as e:  # noqa
            out.append(type(e).__name__)
    return out


DEEP_OPS = [
    ("ancestors", _anc), ("str", str), ("hash", hash), ("lift_chrom", lambda o: o.lift_over_to_first_ancestor_of_type(SequenceType.CHROMOSOME)),
    ("first_asm", lambda o: str(o.first_ancestor_of_type("assembly"))), ("parent_chain", lambda o: [o.parent.id, o.parent.parent.id, str(o.parent.parent.parent)]),
    # unrelated hierarchies built through the same (globally cached) Parent constructor, and questions asked of THEM
    ("shallow_ancestors", lambda o: _anc(_hier(False))), ("other_top_ancestors", lambda o: _anc(_hier(True, other_top=True))),
    ("same_again", lambda o: _anc(_hier(True))), ("same_other_exon", lambda o: _anc(_hier(True, exon=(5, 6)))),
    ("evict", evict), ("equal_twin", lambda o: o == _hier(True) and o != _hier(False)),
]


def mk_parent(par_kind):
    """Parent objects themselves; par_kind picks the shape"""
    seq = Sequence("ACGTACGTAC", Alphabet.NT_STRICT, id="s1", type=SequenceType.CHROMOSOME)
    if par_kind == "seq_strand":
        return Parent(sequence=seq, strand=MINUS)
    if par_kind == "seq_loc":
        return Parent(sequence=seq, location=SingleInterval(2, 8, MINUS))
    if par_kind == "id_strand":
        return Parent(id="p1", sequence_type="feature", strand=PLUS, parent=Parent(id="gp", sequence_type=SequenceType.CHROMOSOME))
    return Parent(id="p1", sequence_type=SequenceType.CHROMOSOME, location=CompoundInterval([1, 6], [4, 9], PLUS), parent=Parent(id="gp"))


def _pnorm(p):
    return None if p is None else (p.id, str(p.sequence_type), str(p._strand if hasattr(p, "_strand") else None), str(p.strand), str(p.location), str(p.sequence) if p.sequence else None,
                                   _pnorm(p.parent))


PARENT_OPS = [
    ("strip", lambda o: _pnorm(o.strip_location_info())), ("strand", lambda o: str(o.strand)), ("repr", repr), ("hash", hash), ("eq_self", lambda o: o == o),
    ("norm", _pnorm), ("reset_loc", lambda o: _pnorm(o.reset_location(SingleInterval(0, 3, PLUS)))), ("strip_is_equal", lambda o: o.strip_location_info() == o),
    ("anc_chrom", lambda o: o.has_ancestor_of_type(SequenceType.CHROMOSOME)), ("first_chrom", lambda o: call(lambda x: _pnorm(x.first_ancestor_of_type(SequenceType.CHROMOSOME)), o)),
    ("eq_except_loc", lambda o: o.equals_except_location(o.strip_location_info())), ("anc_seq", lambda o: o.has_ancestor_sequence(o.sequence) if o.sequence else None),
    ("evict", evict),
]


def _par(kind):
    if kind == "chrom":
        return chrom_parent(GENOME40)
    if kind == "chunk":
        return chunk_parent(2, 36, seq=GENOME40[2:38])
    return None


def mk_cds(par_kind):
    return CDSInterval([4, 18], [13, 30], PLUS, [CDSFrame.ONE, CDSFrame.ONE], parent_or_seq_chunk_parent=_par(par_kind), protein_id="p", qualifiers={"k": ["v"]})


def mk_tx(par_kind):
    return TranscriptInterval([2, 16], [14, 36], MINUS, [4, 16], [14, 30], [CDSFrame.ZERO, CDSFrame.TWO], qualifiers={"note": ["n"], "gene": ["g1"]},
                              transcript_id="tx", transcript_symbol="ts", protein_id="p", sequence_name="chr1", parent_or_seq_chunk_parent=_par(par_kind))


def mk_feat(par_kind):
    return FeatureInterval([3, 12], [9, 20], PLUS, qualifiers={"note": ["n"]}, feature_name="fn", feature_types=["a"], sequence_name="chr1",
                           parent_or_seq_chunk_parent=_par(par_kind))


def mk_gene(par_kind):
    t1 = mk_tx(par_kind)
    t2 = TranscriptInterval([5], [33], MINUS, transcript_id="tx2", sequence_name="chr1", qualifiers={"note": ["m"]}, parent_or_seq_chunk_parent=_par(par_kind))
    return GeneInterval([t1, t2], gene_id="gid", gene_symbol="gs", gene_type=Biotype.protein_coding, sequence_name="chr1", qualifiers={"gq": ["x"], "note": ["gn"], "product": ["gprod"], "protein_id": ["gpid"], "transcript_id": ["gtid"],
                                                               "transcript_name": ["gtn"]},
                        parent_or_seq_chunk_parent=_par(par_kind))


def mk_fcoll(par_kind):
    f2 = FeatureInterval([22], [30], PLUS, feature_name="f2", feature_types=["b"], sequence_name="chr1", parent_or_seq_chunk_parent=_par(par_kind))
    return FeatureIntervalCollection([mk_feat(par_kind), f2], feature_collection_name="fc", sequence_name="chr1", qualifiers={"cq": ["y"], "feature_name": ["cfn"], "feature_id": ["cfid"]},
                                     parent_or_seq_chunk_parent=_par(par_kind))


def mk_acoll(par_kind):
    return AnnotationCollection(genes=[mk_gene(par_kind)], feature_collections=[mk_fcoll(par_kind)], name="ac", sequence_name="chr1",
                                parent_or_seq_chunk_parent=_par(par_kind))


def _gff(o):
    with warnings.catch_warnings():
        warnings.simplefilter("ignore")
        return [str(r) for r in o.to_gff()]


LOC_OPS = [
    ("str", str), ("blocks", lambda o: list(o.blocks)), ("extract", lambda o: o.extract_sequence()), ("r2p", lambda o: o.relative_to_parent_pos(3)),
    ("p2r", lambda o: o.parent_to_relative_pos(13)), ("sub", lambda o: o.relative_interval_to_parent_location(1, 7, MINUS)),
    ("isect", lambda o: o.intersection(SingleInterval(0, 15, o.strand, parent=o.parent))), ("union", lambda o: o.union(SingleInterval(18, 22, o.strand, parent=o.parent))),
    ("minus", lambda o: o.minus(SingleInterval(7, 14, o.strand, parent=o.parent))), ("overlapping", lambda o: o.is_overlapping),
    ("optimize", lambda o: o.optimize_blocks()), ("hash", hash), ("rev", lambda o: o.reverse_strand().extract_sequence()), ("len", len),
    ("gaps", lambda o: o.gaps_location()), ("contig", lambda o: o.is_contiguous), ("lift", lambda o: o.lift_over_to_first_ancestor_of_type(SequenceType.CHROMOSOME)),
    ("pstrand", lambda o: o.parent.strand if o.parent else None), ("merge", lambda o: o.merge_overlapping()), ("opt_combine", lambda o: o.optimize_and_combine_blocks()),
    ("evict", evict), ("twin", lambda o: str(type(o)([1], [2], PLUS) if False else SingleInterval(1, 9, PLUS).extract_sequence)),
]
CDS_OPS = [
    ("lift_chunk", lambda o: o.lift_over_to_first_ancestor_of_type(SequenceType.SEQUENCE_CHUNK)), ("lift_chrom", lambda o: o.lift_over_to_first_ancestor_of_type(SequenceType.CHROMOSOME)),
    ("lift_missing", lambda o: o.lift_over_to_first_ancestor_of_type("no_such_type")), ("extract", lambda o: o.extract_sequence()), ("rel_codons", lambda o: o.chunk_relative_codon_locations), ("chr_codons", lambda o: o.chromosome_codon_locations),
    ("translate", lambda o: o.translate()), ("translate_trunc", lambda o: o.translate(truncate_at_in_frame_stop=True)), ("num_codons", lambda o: o.num_codons),
    ("num_rel_codons", lambda o: o.num_chunk_relative_codons), ("valid_stop", lambda o: o.has_valid_stop), ("inframe_stop", lambda o: o.has_in_frame_stop),
    ("to_dict", lambda o: o.to_dict()), ("chr_loc", lambda o: o.chromosome_location), ("rel_loc", lambda o: o.chunk_relative_location),
    ("frames", lambda o: [f.name for f in o.chunk_relative_frames]), ("scan", lambda o: list(o.scan_chromosome_codon_locations(6, 28))),
    ("scan_rel", lambda o: list(o.scan_chunk_relative_codon_locations())), ("codons", lambda o: [str(c) for c in o.scan_codons()]), ("gff", _gff),
    ("pos", lambda o: o.sequence_pos_to_cds(20)), ("guid", lambda o: str(o.guid)), ("evict", evict), ("twin", lambda o: str(mk_cds("chrom").extract_sequence())),
    ("len", len), ("export_q", lambda o: o.export_qualifiers({"pq": {"z"}})),
]
TX_OPS = [
    ("lift_chunk", lambda o: o.lift_over_to_first_ancestor_of_type(SequenceType.SEQUENCE_CHUNK)), ("lift_chrom", lambda o: o.lift_over_to_first_ancestor_of_type(SequenceType.CHROMOSOME)),
    ("lift_missing", lambda o: o.lift_over_to_first_ancestor_of_type("no_such_type")), ("spliced", lambda o: o.get_spliced_sequence()), ("cds_seq", lambda o: o.get_cds_sequence()), ("protein", lambda o: o.get_protein_sequence()),
    ("tx_seq", lambda o: o.get_transcript_sequence()), ("5p", lambda o: o.get_5p_interval()), ("3p", lambda o: o.get_3p_interval()),
    ("to_dict", lambda o: o.to_dict()), ("gff", _gff), ("gff_parentq", lambda o: [str(r) for r in o.to_gff(parent="P", parent_qualifiers={"pq": {"z"}, "note": {"pn"}})]),
    ("export_q", lambda o: o.export_qualifiers({"note": {"extra"}, "pq": {"z"}})), ("bed", lambda o: str(o.to_bed12())), ("chr_loc", lambda o: o.chromosome_location),
    ("gaps", lambda o: o.chromosome_gaps_location), ("pos", lambda o: o.sequence_pos_to_transcript(20)), ("cdspos", lambda o: o.cds_pos_to_transcript(4)),
    ("codons", lambda o: o.cds.chromosome_codon_locations), ("rel_codons", lambda o: o.cds.chunk_relative_codon_locations),
    ("cds_extract", lambda o: o.cds.extract_sequence()), ("guid", lambda o: str(o.guid)), ("has_stop", lambda o: o.has_in_frame_stop),
    ("evict", evict), ("twin", lambda o: str(mk_tx("chrom").get_spliced_sequence())), ("quals", lambda o: o.qualifiers), ("genomic", lambda o: o.get_genomic_sequence()),
]
FEAT_OPS = [
    ("lift_chunk", lambda o: o.lift_over_to_first_ancestor_of_type(SequenceType.SEQUENCE_CHUNK)), ("lift_chrom", lambda o: o.lift_over_to_first_ancestor_of_type(SequenceType.CHROMOSOME)),
    ("lift_missing", lambda o: o.lift_over_to_first_ancestor_of_type("no_such_type")), ("spliced", lambda o: o.get_spliced_sequence()), ("ref", lambda o: o.get_reference_sequence()), ("to_dict", lambda o: o.to_dict()), ("gff", _gff),
    ("gff_parentq", lambda o: [str(r) for r in o.to_gff(parent="P", parent_qualifiers={"pq": {"z"}, "note": {"pn"}})]),
    ("export_q", lambda o: o.export_qualifiers({"note": {"extra"}})), ("bed", lambda o: str(o.to_bed12())), ("chr_loc", lambda o: o.chromosome_location),
    ("span", lambda o: o.chromosome_span), ("pos", lambda o: o.sequence_pos_to_feature(5)), ("guid", lambda o: str(o.guid)), ("quals", lambda o: o.qualifiers),
    ("evict", evict), ("twin", lambda o: str(mk_feat("chunk").get_spliced_sequence())),
]
GENE_OPS = [
    ("lift_chunk", lambda o: o.lift_over_to_first_ancestor_of_type(SequenceType.SEQUENCE_CHUNK)), ("lift_chrom", lambda o: o.lift_over_to_first_ancestor_of_type(SequenceType.CHROMOSOME)),
    ("lift_missing", lambda o: o.lift_over_to_first_ancestor_of_type("no_such_type")), ("to_dict", lambda o: o.to_dict()), ("gff", _gff), ("merged_tx", lambda o: o.get_merged_transcript()), ("merged_cds", lambda o: o.get_merged_cds()),
    ("primary", lambda o: o.get_primary_transcript().transcript_id), ("prim_seq", lambda o: o.get_primary_transcript_sequence()),
    ("prim_prot", lambda o: o.get_primary_protein()), ("export_q", lambda o: o.export_qualifiers()), ("coding", lambda o: o.is_coding),
    ("tx_blocks", lambda o: [[str(b) for b in t.blocks] for t in o.transcripts]), ("tx_gff", lambda o: [_gff(t) for t in o.transcripts]),
    ("tx_quals", lambda o: [t.qualifiers for t in o.transcripts]), ("tx_dicts", lambda o: [t.to_dict() for t in o.transcripts]),
    ("guid", lambda o: str(o.guid)), ("query", lambda o: o.query_by_guids([o.transcripts[0].guid])), ("evict", evict), ("quals", lambda o: o.qualifiers),
    ("tx_pos", lambda o: o.transcripts[0].sequence_pos_to_transcript(20)),
]
FCOLL_OPS = [
    ("lift_chunk", lambda o: o.lift_over_to_first_ancestor_of_type(SequenceType.SEQUENCE_CHUNK)), ("lift_chrom", lambda o: o.lift_over_to_first_ancestor_of_type(SequenceType.CHROMOSOME)),
    ("lift_missing", lambda o: o.lift_over_to_first_ancestor_of_type("no_such_type")), ("to_dict", lambda o: o.to_dict()), ("gff", _gff), ("merged", lambda o: o.get_merged_feature()), ("primary", lambda o: o.get_primary_feature().feature_name),
    ("prim_seq", lambda o: o.get_primary_feature_sequence()), ("export_q", lambda o: o.export_qualifiers()), ("types", lambda o: o.feature_types),
    ("f_blocks", lambda o: [[str(b) for b in f.blocks] for f in o.feature_intervals]), ("f_quals", lambda o: [f.qualifiers for f in o.feature_intervals]),
    ("f_types", lambda o: [f.feature_types for f in o.feature_intervals]), ("guid", lambda o: str(o.guid)), ("evict", evict),
    ("f_gff", lambda o: [_gff(f) for f in o.feature_intervals]),
]
ACOLL_OPS = [
    ("lift_chunk", lambda o: o.lift_over_to_first_ancestor_of_type(SequenceType.SEQUENCE_CHUNK)), ("lift_chrom", lambda o: o.lift_over_to_first_ancestor_of_type(SequenceType.CHROMOSOME)),
    ("lift_missing", lambda o: o.lift_over_to_first_ancestor_of_type("no_such_type")), ("to_dict", lambda o: o.to_dict()), ("gff", _gff), ("children", lambda o: [c.guid for c in o.iter_children()]), ("q_pos", lambda o: o.query_by_position(3, 34)),
    ("q_pos_relaxed", lambda o: o.query_by_position(10, 20, completely_within=False)), ("q_guid", lambda o: o.query_by_guids([next(iter(o.iter_children())).guid])),
    ("q_ident", lambda o: o.query_by_feature_identifiers(["gid"])), ("hier", lambda o: o.hierarchical_children_guids), ("len", len),
    ("child_dicts", lambda o: [c.to_dict() for c in o.iter_children()]), ("guid", lambda o: str(o.guid)), ("evict", evict), ("export_parent", lambda o: o.to_dict(export_parent=True)),
]
def mk_rna_acoll(par_kind):
    """non-coding, single-exon genes with product qualifiers (what a hand-built or GenBank-derived rRNA / tRNA annotation looks like)"""
    genes = []
    for i, (bt, a, b) in enumerate(((Biotype.rRNA, 3, 14), (Biotype.tRNA, 18, 30))):
        t = TranscriptInterval([a], [b], PLUS, transcript_id="r%d" % i, transcript_type=bt, sequence_name="chr1", qualifiers={"product": ["16S ribosomal RNA"]},
                               parent_or_seq_chunk_parent=_par(par_kind))
        genes.append(GeneInterval([t], gene_id="rg%d" % i, gene_type=bt, sequence_name="chr1", qualifiers={"product": ["16S ribosomal RNA"]},
                                  parent_or_seq_chunk_parent=_par(par_kind)))
    return AnnotationCollection(genes=genes, name="rna", sequence_name="chr1", parent_or_seq_chunk_parent=_par(par_kind))


def _tbl(o):
    import io

    from inscripta.biocantor.io.ncbi.tbl_writer import collection_to_tbl

    buf = io.StringIO()
    with warnings.catch_warnings():
        warnings.simplefilter("ignore")
        collection_to_tbl([o], buf, random_seed=3)
    return buf.getvalue()


RNA_ACOLL_OPS = [("tbl", _tbl), ("gff", _gff), ("to_dict", lambda o: o.to_dict()), ("child_dicts", lambda o: [c.to_dict() for c in o.iter_children()]),
                 ("q_pos", lambda o: o.query_by_position(3, 34)), ("guid", lambda o: str(o.guid)), ("evict", evict)]
CATALOGUE = {
    "single": (mk_single, LOC_OPS, ("chrom", "chunk")), "unstranded": (mk_unstranded, LOC_OPS, ("chrom",)), "aa_minus": (mk_aa_minus, LOC_OPS, ("chrom",)), "compound": (mk_compound, LOC_OPS, ("chrom", "chunk")),
    "compound_ov": (mk_compound_ov, LOC_OPS, ("chrom",)),
    "deep": (mk_deep, DEEP_OPS, ("chrom",)),
    "parent": (mk_parent, PARENT_OPS, ("seq_strand", "seq_loc", "id_strand", "id_loc")),
    "cds": (mk_cds, CDS_OPS, ("chrom", "chunk")), "tx": (mk_tx, TX_OPS, ("chrom", "chunk")), "feat": (mk_feat, FEAT_OPS, ("chrom", "chunk")),
    "gene": (mk_gene, GENE_OPS, ("chrom",)), "fcoll": (mk_fcoll, FCOLL_OPS, ("chrom",)), "acoll": (mk_acoll, ACOLL_OPS, ("chrom", "chunk")),
    "rna_acoll": (mk_rna_acoll, RNA_ACOLL_OPS, ("chrom",)),
}


def snapshot(o):
    out = [call(str, o)]
    for f in (lambda x: x.to_dict(), lambda x: hash(x), lambda x: str(getattr(x, "guid", None)), lambda x: [str(b) for b in x.blocks],
              lambda x: {k: sorted(v) for k, v in x.qualifiers.items()},
              lambda x: [c.to_dict() for c in x.iter_children()], lambda x: [{k: sorted(v) for k, v in c.qualifiers.items()} for c in x.iter_children()],
              lambda x: [[str(b) for b in c.blocks] for c in x.iter_children()]):
        out.append(call(f, o))
    return out


def schedule_fn(kind, par_kind, k, first=None):
    mk, ops, _ = CATALOGUE[kind]

    def fn(**kw):
        idx = concretize(*[kw["o%d" % i] for i in range(k)])
        idx = idx if isinstance(idx, list) else [idx]
        with untraced():
            # reference answers come from a clean global Parent cache (a fresh process), the schedule then runs on whatever it leaves behind
            Parent.cache_clear()
            fresh = call(ops[idx[-1]][1], mk(par_kind))
            before = snapshot(mk(par_kind))
            Parent.cache_clear()
            obj = mk(par_kind)
            for i in idx[:-1]:
                call(ops[i][1], obj)
            got = call(ops[idx[-1]][1], obj)
            fresh2 = call(ops[idx[-1]][1], mk(par_kind))
            after = snapshot(obj)
            if fresh2 != fresh:
                return False  # a twin built AFTER the schedule answers differently from a fresh process: the history leaked through a global cache
            return got == fresh and after == before

    return fn


# ------------------------------------------------------------------ H1: lazy slots of locations with symbolic coordinates
def lazy_slots_fn(k, strand, pre_ops, op):
    OPS = {
        "blocks": lambda l: [(b.start, b.end) for b in l.blocks], "overlapping": lambda l: l.is_overlapping, "len": lambda l: len(l),
        "r2p": lambda l: l.relative_to_parent_pos(0), "optimize": lambda l: blocks_of(l.optimize_blocks()), "str": lambda l: str(l.strand),
        "isect": lambda l: blocks_of(l.intersection(SingleInterval(l.start, l.end, strand))), "gaps": lambda l: blocks_of(l.gaps_location()),
        "merge": lambda l: blocks_of(l.merge_overlapping()), "minus": lambda l: blocks_of(l.minus(SingleInterval(l.end + 5, l.end + 9, strand))),
    }

    def fn(**kw):
        bl = layout_blocks(k, kw)
        a = CompoundInterval([b[0] for b in bl], [b[1] for b in bl], strand)
        b = CompoundInterval([x[0] for x in bl], [x[1] for x in bl], strand)
        for p in pre_ops:
            OPS[p](a)
        ra, rb = OPS[op](a), OPS[op](b)
        # (blocks are compared with an untouched third twin: the library keeps blocks sorted, which differs from the layout order for nested blocks)
        c = CompoundInterval([x[0] for x in bl], [x[1] for x in bl], strand)
        return AND(DEQ(ra, rb), type(ra) is type(rb), DEQ([(x.start, x.end) for x in a.blocks], [(x.start, x.end) for x in c.blocks]), a.strand is strand,
                   len(a) == sum(e - s for s, e in bl))

    return fn


# ------------------------------------------------------------------ H3: class-level codon registry (state shared by ALL objects in the process)
def codon_text_history():
    """a CDS whose middle codon is a text the codon class refuses (gap, foreign letter) or accepts (IUPAC): every question that goes through the codon class
    gets the same answer - the same value or the same refusal - every time it is asked, on this object and on a twin built afterwards. Every path uses a
    DIFFERENT middle codon, so what an earlier path left in the class-level registry cannot help."""
    CH = "ACGTNRY-X*acgn?"

    def fn(i, j, k):
        i, j, k = concretize(i, j, k)
        with untraced():
            mid = CH[i] + CH[j] + CH[k]
            text = "ATG" + mid + "GGATAA"

            def mk():
                par = Parent(sequence=Sequence(text, Alphabet.NT_EXTENDED_GAPPED, type=SequenceType.CHROMOSOME, id="chrG", validate_alphabet=False),
                             location=SingleInterval(0, len(text), PLUS))
                return CDSInterval([0], [len(text)], PLUS, [CDSFrame.ZERO], parent_or_seq_chunk_parent=par)

            ops = [lambda o: str(o.translate(strict=False)), lambda o: str(o.translate()), lambda o: [str(c) for c in o.scan_codons()],
                   lambda o: o.has_in_frame_stop, lambda o: o.has_valid_stop]
            a = mk()
            rounds = [[call(f, a) for f in ops] for _ in range(3)]
            b = mk()
            rounds.append([call(f, b) for f in reversed(ops)][::-1])
            return all(r == rounds[0] for r in rounds)

    return fn


# ------------------------------------------------------------------ H4: objects adopted by a collection built on another parent (in-place re-parenting)
def adoption_history():
    """a gene / feature collection built WITHOUT parent (or on its own parent) and then handed to an AnnotationCollection that has one: whatever was asked of it
    before the adoption, every answer afterwards - of the member and of the owning collection - equals that of a twin of which nothing was asked"""
    PRE = [None, lambda o: o.strand, lambda o: o.chromosome_location, lambda o: o.to_dict(), lambda o: o.chunk_relative_location, lambda o: o.guid,
           lambda o: [c.chromosome_location for c in o.iter_children()], lambda o: [list(c.blocks) for c in o.iter_children()],
           lambda o: [c.has_sequence for c in o.iter_children()], lambda o: [c.get_spliced_sequence() for c in o.iter_children()]]
    POST = [lambda m, c: m.chromosome_location, lambda m, c: m.chromosome_location.parent_id, lambda m, c: m.strand, lambda m, c: m.to_dict(),
            lambda m, c: [x.chromosome_location for x in m.iter_children()], lambda m, c: [x.chromosome_location.parent_id for x in m.iter_children()],
            lambda m, c: [list(x.blocks) for x in m.iter_children()], lambda m, c: [x.to_dict() for x in c.query_by_position(0, 40).iter_children()],
            lambda m, c: [x.to_dict() for x in c.query_by_position(3, 35, completely_within=False).iter_children()], lambda m, c: c.to_dict(),
            lambda m, c: [x.has_sequence for x in m.iter_children()], lambda m, c: [x.get_spliced_sequence() for x in m.iter_children()],
            lambda m, c: [x.get_reference_sequence() for x in m.iter_children()], lambda m, c: [x.get_genomic_sequence() for x in m.iter_children()]]

    def fn(kind, own, owner, pre):
        kind, own, owner, pre = concretize(kind, own, owner, pre)
        with untraced():
            pars = [None, "chrom", "chunk", "bare"]

            def par(k):
                return Parent(id="chr1", sequence_type=SequenceType.CHROMOSOME) if k == "bare" else _par(k)

            def mk_member():
                if kind == 0:
                    t1 = TranscriptInterval([2, 16], [14, 36], MINUS, [4, 16], [14, 30], [CDSFrame.ZERO, CDSFrame.TWO], transcript_id="tx", sequence_name="chr1",
                                            parent_or_seq_chunk_parent=par(pars[own]))
                    return GeneInterval([t1], gene_id="gid", sequence_name="chr1", parent_or_seq_chunk_parent=par(pars[own]))
                f1 = FeatureInterval([3, 12], [9, 20], PLUS, feature_name="fn", sequence_name="chr1", parent_or_seq_chunk_parent=par(pars[own]))
                return FeatureIntervalCollection([f1], feature_collection_name="fc", sequence_name="chr1", parent_or_seq_chunk_parent=par(pars[own]))

            def run(pre_op):
                Parent.cache_clear()
                m = mk_member()
                if pre_op is not None:
                    call(pre_op, m)
                try:
                    coll = AnnotationCollection(genes=[m] if kind == 0 else None, feature_collections=[m] if kind == 1 else None, sequence_name="chr1",
                                                parent_or_seq_chunk_parent=par(pars[owner]))
                except Exception as e:  # noqa
                    return ("refused", type(e).__name__)
                return [call(lambda _: f(m, coll), None) for f in POST]

            return run(PRE[pre]) == run(None)

    return fn


def obligations(tier):
    out = []
    quick = tier == "quick"
    k = 2 if quick else 3
    for kind, (mk, ops, pars) in CATALOGUE.items():
        m = len(ops)
        for par_kind in pars:
            params = {"o%d" % i: int for i in range(k)}
            names = [n for n, _ in ops]
            if k == 2:
                out.append(Obl("schedule2_%s_%s" % (kind, par_kind), schedule_fn(kind, par_kind, 2), params,
                               (lambda m: (lambda **kw: all(0 <= kw["o%d" % i] and kw["o%d" % i] < m for i in range(2))))(m), budget=340, cost=m * m * 0.2,
                               desc="%s on a %s parent, real memoisation: for EVERY ordered pair of operations (%s) the second answer (value and type) "
                                    "equals a fresh twin's and the object's snapshot (str, to_dict, hash, guid, blocks, qualifiers, children) is unchanged" % (
                                        kind, par_kind, ", ".join(names)),
                               bounds="%d x %d schedules" % (m, m), examples=[dict(o0=0, o1=1), dict(o0=1, o1=0)]))
            else:
                for first in range(m):
                    out.append(Obl("schedule3_%s_%s_first%s" % (kind, par_kind, names[first]), schedule_fn(kind, par_kind, 3), params,
                                   (lambda m, first: (lambda **kw: kw["o0"] == first and all(0 <= kw["o%d" % i] and kw["o%d" % i] < m for i in (1, 2))))(m, first),
                                   budget=900, cost=m * m * 0.25,
                                   desc="%s on a %s parent: every schedule of 3 operations starting with %s" % (kind, par_kind, names[first]),
                                   bounds="%d x %d schedules" % (m, m), examples=[dict(o0=first, o1=0, o2=1)]))
    n_ch = 15
    out.append(Obl("codon_text_history", codon_text_history(), dict(i=int, j=int, k=int),
                   lambda i, j, k: 0 <= i and i < n_ch and 0 <= j and j < n_ch and 0 <= k and k < n_ch and (not quick or (i + j + k) % 3 == 0), budget=900, cost=60,
                   desc="CDS with a middle codon over a 15-character alphabet (IUPAC letters, gap, foreign letters, lower case): translate (strict / non-strict), "
                        "scan_codons and the stop predicates give the same value or the same refusal three times in a row and on a twin built afterwards "
                        "(class-level codon registry)", bounds="15^3 middle codons%s (closed by the solver), each used on one path only" % (" (a third in the quick tier)" if quick else ""),
                   examples=[dict(i=0, j=7, k=2), dict(i=8, j=0, k=1), dict(i=0, j=1, k=2)]))
    out.append(Obl("adoption_history", adoption_history(), dict(kind=int, own=int, owner=int, pre=int),
                   lambda kind, own, owner, pre: 0 <= kind and kind <= 1 and 0 <= own and own <= 3 and 0 <= owner and owner <= 3 and 1 <= pre and pre <= 9,
                   budget=900, cost=60,
                   desc="gene / feature collection built on no parent, a chromosome, a chunk or a sequence-less chromosome and then handed to an annotation collection "
                        "built on any of these (in-place re-parenting): every answer of the member and of the owner after the adoption is the same whether or not "
                        "strand / chromosome_location / to_dict / child locations / has_sequence / sequences were asked of the member before",
                   bounds="2 member kinds x 4 own parents x 4 owner parents x 9 earlier questions (closed by the solver), 14 later questions each",
                   examples=[dict(kind=0, own=0, owner=1, pre=2), dict(kind=1, own=1, owner=3, pre=8)]))
    # H1
    slot_ops = ["blocks", "overlapping", "len", "r2p", "optimize", "isect", "gaps"]
    for strand in (PLUS, MINUS):
        for pre_op in ([("blocks",), ("overlapping",), ("blocks", "overlapping")] if quick else
                       [(), ("blocks",), ("overlapping",), ("blocks", "overlapping"), ("optimize",), ("isect", "gaps")]):
            for op in (slot_ops if not quick else ["blocks", "overlapping", "optimize", "isect"]):
                kk = 2
                params = dict(layout_params(kk))
                out.append(Obl("lazy_slots_%s_after_%s_%s" % (op, "+".join(pre_op) or "nothing", sname(strand)), lazy_slots_fn(kk, strand, pre_op, op), params,
                               (lambda kk: (lambda **kw: layout_pre(kk, kw, min_len=1, min_gap=0)))(kk), budget=300, cost=10,
                               desc="symbolic coordinates: after filling the lazy slots (%s), %s answers as on an untouched twin and blocks/strand/length are intact" % (
                                   ", ".join(pre_op) or "none", op),
                               bounds="2 blocks, unbounded symbolic coordinates", examples=[dict(s0=2, l0=3, l1=4, g1=1)]))
    # H1 on layouts whose two blocks may overlap (signed gap): the lazy _is_overlapping flag must not be filled by other operations with a wrong value
    for strand in (PLUS, MINUS):
        for pre_op in ([("optimize",), ("minus",)] if quick else [("optimize",), ("minus",), ("isect",), ("gaps",), ("blocks", "optimize"), ("merge",)]):
            for op in (["overlapping", "merge"] if quick else ["overlapping", "merge", "blocks", "optimize", "len"]):
                out.append(Obl("lazy_slots_ov_%s_after_%s_%s" % (op, "+".join(pre_op), sname(strand)), lazy_slots_fn(2, strand, pre_op, op), dict(layout_params(2)),
                               lambda s0, l0, l1, g1: s0 >= 0 and l0 >= 1 and l1 >= 1 and g1 >= -l0, budget=300, cost=10,
                               desc="symbolic coordinates, blocks possibly OVERLAPPING or nested: after %s, %s answers as on an untouched twin and blocks/strand/length are intact" % (
                                   ", ".join(pre_op), op),
                               bounds="2 blocks, second block starting anywhere at or after the first block's start, unbounded symbolic coordinates",
                               examples=[dict(s0=2, l0=6, l1=4, g1=-3), dict(s0=2, l0=3, l1=4, g1=1)]))
    return out
