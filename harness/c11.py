"""C11 — GFF3 export is well-formed (export side; the library re-parse leg is outside the claim)."""
import io
import itertools
import re
import warnings

import harness.common  # noqa: F401
from inscripta.biocantor.gene.biotype import Biotype
from inscripta.biocantor.gene.cds_frame import CDSFrame
from inscripta.biocantor.gene.collections import AnnotationCollection
from inscripta.biocantor.gene.feature import FeatureInterval, FeatureIntervalCollection
from inscripta.biocantor.gene.gene import GeneInterval
from inscripta.biocantor.gene.transcript import TranscriptInterval
from inscripta.biocantor.io.gff3.exc import GFF3ExportException
from inscripta.biocantor.io.gff3.rows import GFFAttributes, GFFRow

from harness.common import AND, ITE, MINUS, NOT, OR, PLUS, GENOME40, Strand, chrom_parent, chunk_parent, sname
from vlib.obl import Obl
from vlib.sym import concretize, untraced
from vlib.tok import untok

META = dict(
    functions=["GFFRow.__str__", "GFFAttributes.__str__ / escape_key / escape_value / _escape_str / _escape_str_with_comma",
               "io.gff3.constants ENCODING_MAP / ENCODING_MAP_WITH_COMMA / ENCODING_PATTERN(_WITH_COMMA) (live tables -> z3)",
               "GeneInterval.to_gff / TranscriptInterval.to_gff / CDSInterval.to_gff / FeatureInterval.to_gff / FeatureIntervalCollection.to_gff / "
               "AnnotationCollection.to_gff (sort) / io.gff3.writer.collection_to_gff3"],
    bounds=dict(quick="row structure with UNBOUNDED symbolic coordinates rendered through symbolic tokens: 1 gene with a coding (CDS = second exon, frames "
                      "driver-enumerated) and a non-coding transcript (<=2 exons) plus a feature collection, both coordinate modes (chunk at symbolic offset); "
                      "escaping: every code point (z3 over the live tables) and every string of length <=3 over a 15-character alphabet through the real "
                      "escape functions (realised); reserved keys; headers/FASTA section",
                thorough="2 genes, interleaved members, strings of length 4"),
    outside="re-parsing with io.gff3.parser (gffutils/sqlite3: C extension + file I/O, concrete only) and 'export of the parsed result reproduces the file'; "
            "seqid/source/type columns are taken as given (simple names)",
    stubs=["S1", "S2", "S3", "S5", "S6", "S8 symbolic-token rendering", "S11", "S12; digest real where IDs must be distinct (realised legs)"],
    assumptions=["percent-decoding (urllib.parse.unquote) is the independent attribute decoder", "decimal rendering of ints is Python's"],
)
Q = {"note": ["a;b=c", "x y"], "Alias": ["al"]}


def _gene(kw, strand, frames, par=None, two_exon=True, qualifiers=None):
    s0, l0, g, l1 = kw["s0"], kw["l0"], kw["g"], kw["l1"]
    ex = [(s0, s0 + l0), (s0 + l0 + g, s0 + l0 + g + l1)]
    cds = [ex[0], ex[1]] if frames and len(frames) == 2 else [ex[1]]
    t1 = TranscriptInterval([e[0] for e in ex], [e[1] for e in ex], strand, [c[0] for c in cds], [c[1] for c in cds],
                            [CDSFrame(f) for f in (frames or [0])], guid=801, transcript_id="tx1", transcript_symbol="sym,1", protein_id="prot",
                            sequence_name="chr1", qualifiers=qualifiers, parent_or_seq_chunk_parent=par, transcript_type=Biotype.protein_coding)
    t2 = TranscriptInterval([ex[0][0]], [ex[0][1]], strand, guid=802, transcript_id="tx2", sequence_name="chr1", parent_or_seq_chunk_parent=par)
    gene = GeneInterval([t1, t2], guid=800, gene_id="gid", gene_symbol="gs", locus_tag="lt", sequence_name="chr1", qualifiers=qualifiers,
                        gene_type=Biotype.protein_coding, parent_or_seq_chunk_parent=par)
    return ex, cds, gene


def parse_attrs(col9):
    from urllib.parse import unquote

    out = {}
    for pair in col9.split(";"):
        k, _, v = pair.partition("=")
        out[unquote(k)] = [unquote(x) for x in v.split(",")]
    return out


def check_rows(rows_text, expect, off, ordered=True):
    """rows_text: list of 9-column strings in file order; expect: list of (type, start, end, strand, phase) multiset to find"""
    seen_ids = []
    conds = []
    prev_start = None
    parsed = []
    for line in rows_text:
        cols = line.split("\t")
        if len(cols) != 9:
            return False
        seqid, source, typ, st, en, score, strand, phase, attrs = cols
        st, en = untok(st), untok(en)
        a = parse_attrs(attrs)
        if "ID" not in a or len(a["ID"]) != 1:
            return False
        rid = a["ID"][0]
        if rid in seen_ids:
            return False
        if "Parent" in a:
            for p in a["Parent"]:
                if p not in seen_ids:
                    return False
        seen_ids.append(rid)
        conds.append(AND(1 <= st, st <= en))
        if prev_start is not None and ordered:
            conds.append(prev_start <= st)
        prev_start = st
        if seqid != "chr1" or score != "." or strand not in "+-":
            return False
        if (typ == "CDS") != (phase in "012"):
            return False
        if typ != "CDS" and phase != ".":
            return False
        parsed.append((typ, st, en, strand, phase, a))
    # every expected row is present with the right coordinates
    for typ, s, e, strand, phase in expect:
        if isinstance(phase, str):
            cands = [p for p in parsed if p[0] == typ and p[3] == strand and p[4] == phase]
            if not cands:
                return False
            conds.append(OR(*[AND(p[1] == s - off + 1, p[2] == e - off) for p in cands]))
        else:  # a phase given as a (possibly symbolic) integer
            cands = [p for p in parsed if p[0] == typ and p[3] == strand and p[4] in ("0", "1", "2")]
            if not cands:
                return False
            conds.append(OR(*[AND(p[1] == s - off + 1, p[2] == e - off, int(p[4]) == phase) for p in cands]))
    conds.append(len(parsed) == len(expect))
    return AND(*conds)


def gene_rows_fn(strand, frames, mode):
    sym = "+" if strand is PLUS else "-"

    def light(**kw):
        # chunk modes: one coding transcript only (CDS construction on a chunk costs ~1 s per path)
        par = chunk_parent(kw["w"], 30)
        s0, l0, g, l1 = kw["s0"], kw["l0"], kw["g"], kw["l1"]
        ex = [(s0, s0 + l0), (s0 + l0 + g, s0 + l0 + g + l1)]
        cds = [ex[0], ex[1]] if len(frames) == 2 else [ex[1]]
        t1 = TranscriptInterval([e[0] for e in ex], [e[1] for e in ex], strand, [c[0] for c in cds], [c[1] for c in cds],
                                [CDSFrame(f) for f in frames], guid=801, transcript_id="tx1", sequence_name="chr1", parent_or_seq_chunk_parent=par)
        gene = GeneInterval([t1], guid=800, gene_id="gid", sequence_name="chr1", parent_or_seq_chunk_parent=par)
        rel = mode == "chunk_rel"
        rows = [str(r) for r in gene.to_gff(chromosome_relative_coordinates=not rel)]
        off = kw["w"] if rel else 0
        expect = [("gene", ex[0][0], ex[1][1], "+", "."), ("transcript", ex[0][0], ex[1][1], sym, "."), ("exon", ex[0][0], ex[0][1], sym, "."),
                  ("exon", ex[1][0], ex[1][1], sym, ".")]
        if rel and len(frames) == 2:
            # chunk-relative export writes the frames of the chunk view, which the library REGENERATES as one uninterrupted reading frame from the frame of the
            # 5'-most visible block (documented in CDSInterval.chunk_relative_frames: an annotated frameshift is not carried into the chunk view)
            if strand is PLUS:
                fr = [frames[0], (l0 - frames[0]) % 3]
            else:
                fr = [(l1 - frames[1]) % 3, frames[1]]
            for (cs, ce), f in zip(cds, fr):
                expect.append(("CDS", cs, ce, sym, (3 - f) % 3))
        else:
            for (cs, ce), f in zip(cds, frames):
                expect.append(("CDS", cs, ce, sym, str(CDSFrame(f).to_phase().value)))
        # a gene's own rows are emitted parent-first, not globally sorted: order is checked on collections (non-chunk obligations)
        return check_rows(rows, expect, off, ordered=False)

    def fn(**kw):
        if mode:
            return light(**kw)
        par = None
        ex, cds, gene = _gene(kw, strand, frames, par=par, qualifiers=Q)
        fc = FeatureIntervalCollection([FeatureInterval([kw["fs"]], [kw["fs"] + kw["fl"]], strand, guid=811, feature_name="f", sequence_name="chr1",
                                                        feature_types=["t1"], parent_or_seq_chunk_parent=par)],
                                       guid=810, feature_collection_name="fc", sequence_name="chr1", parent_or_seq_chunk_parent=par)
        coll = AnnotationCollection(genes=[gene], feature_collections=[fc], sequence_name="chr1", parent_or_seq_chunk_parent=par)
        rel = mode == "chunk_rel"
        with warnings.catch_warnings():
            warnings.simplefilter("ignore")
            rows = [str(r) for r in coll.to_gff(chromosome_relative_coordinates=not rel, raise_on_reserved_attributes=False)]
        off = kw["w"] if rel else 0
        phases = [str(CDSFrame(f).to_phase().value) for f in frames]
        # gene / feature-collection rows carry the aggregate's own location strand, which BioCantor defines as '+' (the bundled
        # expected files pin this); member rows carry the member's strand
        expect = [("gene", ex[0][0], ex[1][1], "+", "."),
                  ("transcript", ex[0][0], ex[1][1], sym, "."), ("exon", ex[0][0], ex[0][1], sym, "."), ("exon", ex[1][0], ex[1][1], sym, "."),
                  ("transcript", ex[0][0], ex[0][1], sym, "."), ("exon", ex[0][0], ex[0][1], sym, "."),
                  ("biological_region", kw["fs"], kw["fs"] + kw["fl"], "+", "."), ("feature_interval", kw["fs"], kw["fs"] + kw["fl"], sym, "."),
                  ("subregion", kw["fs"], kw["fs"] + kw["fl"], sym, ".")]
        for (s, e), ph in zip(cds, phases):
            expect.append(("CDS", s, e, sym, ph))
        return check_rows(rows, expect, off)

    return fn


def rows_cut_fn(strand):
    """chunk-relative export of a (non-coding, 2-exon) transcript that the chunk window CUTS anywhere - inside an exon, inside the intron, exactly at an exon
    edge: exon rows are exactly the non-empty parts of the exons inside the window, in chunk coordinates (1-based, start <= end <= chunk length)"""
    sym = "+" if strand is PLUS else "-"
    Lc = 30

    def fn(s0, l0, g, l1, w):
        ex = [(s0, s0 + l0), (s0 + l0 + g, s0 + l0 + g + l1)]
        par = chunk_parent(w, Lc)
        t = TranscriptInterval([e[0] for e in ex], [e[1] for e in ex], strand, guid=801, transcript_id="tx1", sequence_name="chr1", parent_or_seq_chunk_parent=par)
        gene = GeneInterval([t], guid=800, gene_id="gid", sequence_name="chr1", parent_or_seq_chunk_parent=par)
        rows = [str(r).split("\t") for r in gene.to_gff(chromosome_relative_coordinates=False)]
        conds = []
        exon_rows = []
        for cols in rows:
            if len(cols) != 9:
                return False
            st, en = untok(cols[3]), untok(cols[4])
            conds.append(AND(1 <= st, st <= en, en <= Lc))
            if cols[2] == "exon":
                if cols[6] != sym:
                    return False
                exon_rows.append((st, en))
        inside = [AND(s < w + Lc, w < e) for s, e in ex]
        # number of exon rows == number of exons with a base inside the window; each such exon has its row
        from vlib.sym import COUNT

        conds.append(len(exon_rows) == COUNT(inside))
        for (s, e), ins in zip(ex, inside):
            lo = ITE(s > w, s, w) - w + 1
            hi = ITE(e < w + Lc, e, w + Lc) - w
            conds.append(OR(NOT(ins), OR(*[AND(r[0] == lo, r[1] == hi) for r in exon_rows]) if exon_rows else False))
        return AND(*conds)

    return fn


def rows_minus_chunk_fn(strand):
    """gene (coding 2-exon transcript) and feature collection on a chunk that is placed on the MINUS strand of the chromosome and holds them completely:
    chromosome-mode rows are exactly those of the parent-less twin (coordinates, strand, phase); chunk-relative rows are their mirror image (x -> w+Lc-x),
    with the strand of the chunk coordinate system on EVERY row and the same phase on the same block. Realised leg."""
    Lc = 30

    def fn(**kw):
        names = sorted(kw)
        vals = concretize(*[kw[n] for n in names])
        kw = dict(zip(names, vals if isinstance(vals, list) else [vals]))
        with untraced():
            return bool(body(**kw))

    def body(s0, l0, g, l1, co, ce, w):
        ex = [(s0, s0 + l0), (s0 + l0 + g, s0 + l0 + g + l1)]
        cds = [(ex[0][0] + co, ex[0][1]), (ex[1][0], ex[1][1] - ce)]
        from harness.cdsmodel import consistent_frames

        frames = [CDSFrame(f) for f in consistent_frames([c[1] - c[0] for c in cds], strand, 0)]

        def build(par):
            t = TranscriptInterval([e[0] for e in ex], [e[1] for e in ex], strand, [c[0] for c in cds], [c[1] for c in cds], frames, guid=811, transcript_id="tx1",
                                   sequence_name="chr1", parent_or_seq_chunk_parent=par() if par else None)
            gene = GeneInterval([t], guid=810, gene_id="gid", sequence_name="chr1", parent_or_seq_chunk_parent=par() if par else None)
            fc = FeatureIntervalCollection([FeatureInterval([ex[0][0]], [ex[1][1]], strand.reverse(), guid=813, feature_name="f1", sequence_name="chr1",
                                                            parent_or_seq_chunk_parent=par() if par else None)], guid=812, feature_collection_name="fc",
                                           sequence_name="chr1", parent_or_seq_chunk_parent=par() if par else None)
            return AnnotationCollection(genes=[gene], feature_collections=[fc], sequence_name="chr1", parent_or_seq_chunk_parent=par() if par else None)

        def rows(coll, mode):
            with warnings.catch_warnings():
                warnings.simplefilter("ignore")
                out = []
                for r in coll.to_gff(chromosome_relative_coordinates=mode):
                    c = str(r).split("\t")
                    out.append((c[2], int(c[3]), int(c[4]), c[6], c[7]))
                return out

        plain = rows(build(None), True)
        onchunk = build(lambda: chunk_parent(w, Lc, strand=MINUS))
        if sorted(rows(onchunk, True)) != sorted(plain):
            return False
        flip = {"+": "-", "-": "+", ".": "."}
        want = sorted((t, w + Lc - e + 1, w + Lc - s + 1, flip[st], ph) for t, s, e, st, ph in plain)
        got = rows(onchunk, False)
        return sorted(got) == want and [r[1] for r in got] == sorted(r[1] for r in got)

    return fn


def parse_cds_only_fn(strand):
    """GFF3 written by gene finders / for prokaryotes: a gene with an mRNA that has CDS rows but NO exon rows (BioCantor's own writer never produces this, so the
    export -> parse legs cannot reach the code): the parsed transcript's exons are exactly the CDS segments - also 1-nt segments, first, inner or last - its
    CDS blocks are those segments and every CDS position can be placed on the transcript"""
    sym = "+" if strand is PLUS else "-"

    def fn(s0, l0, g1, l1, g2, l2, nseg):
        s0, l0, g1, l1, g2, l2, nseg = concretize(s0, l0, g1, l1, g2, l2, nseg)
        with untraced():
            import logging
            import os

            from inscripta.biocantor.io.gff3.parser import parse_standard_gff3

            segs = [(s0, s0 + l0), (s0 + l0 + g1, s0 + l0 + g1 + l1), (s0 + l0 + g1 + l1 + g2, s0 + l0 + g1 + l1 + g2 + l2)][:nseg]
            rows = ["##gff-version 3", "##sequence-region chr1 1 500",
                    "\t".join(["chr1", "t", "gene", str(segs[0][0] + 1), str(segs[-1][1]), ".", sym, ".", "ID=gene1;gene_id=G1"]),
                    "\t".join(["chr1", "t", "mRNA", str(segs[0][0] + 1), str(segs[-1][1]), ".", sym, ".", "ID=tx1;Parent=gene1;transcript_id=T1"])]
            for i, (a, b) in enumerate(segs):
                rows.append("\t".join(["chr1", "t", "CDS", str(a + 1), str(b), ".", sym, "0", "ID=cds%d;Parent=tx1" % i]))
            path = _tmp_path("cdsonly")
            logging.disable(logging.CRITICAL)
            try:
                with warnings.catch_warnings():
                    warnings.simplefilter("ignore")
                    with open(path, "w") as fh:
                        fh.write("\n".join(rows) + "\n")
                    recs = list(parse_standard_gff3(path))
                    coll = recs[0].annotation.to_annotation_collection()
            finally:
                logging.disable(logging.NOTSET)
                if os.path.exists(path):
                    os.remove(path)
            tx = coll.genes[0].transcripts[0]
            ok = [(b.start, b.end) for b in tx.chromosome_location.blocks] == segs and tx.is_coding and [(b.start, b.end) for b in tx.cds.chromosome_location.blocks] == segs
            n = sum(b - a for a, b in segs)
            return ok and len(tx.cds) == n and sorted(tx.cds_pos_to_transcript(i) for i in range(n)) == list(range(n)) and tx.strand is strand

    return fn


def rows_pre(mode, frames=None, strand=None):
    def pre(**kw):
        if mode == "chunk_rel" and frames is not None and len(frames) == 2:
            # outside the claim: a 5'-most block that is not longer than its own frame offset
            if not (kw["l0"] > frames[0] if strand is PLUS else kw["l1"] > frames[1]):
                return False
        if not (kw["s0"] >= 0 and kw["l0"] >= 1 and kw["g"] >= 1 and kw["l1"] >= 1 and kw["fs"] >= 0 and kw["fl"] >= 1):
            return False
        if mode:
            end = kw["s0"] + kw["l0"] + kw["g"] + kw["l1"]
            return kw["w"] >= 0 and kw["w"] <= kw["s0"] and end <= kw["w"] + 30 and kw["fs"] == 0 and kw["fl"] == 1
        return True

    return pre


# ------------------------------------------------------------------ escaping
FORBIDDEN = "\t\n\r;=> %"


def _smt_escape():
    import re._parser as sre  # noqa

    import z3

    from inscripta.biocantor.io.gff3 import constants as C

    failures, queries = [], 0
    for name, table, pattern, forb in (("ENCODING_MAP", C.ENCODING_MAP, C.ENCODING_PATTERN, FORBIDDEN),
                                       ("ENCODING_MAP_WITH_COMMA", C.ENCODING_MAP_WITH_COMMA, C.ENCODING_PATTERN_WITH_COMMA, FORBIDDEN + ",")):
        # the pattern must be exactly an alternation of the map's single-character keys
        alts = set()
        try:
            parsed = sre.parse(pattern)
            (op, arg), = list(parsed)
            assert str(op) == "SUBPATTERN"
            inner = list(arg[3])
            if len(inner) == 1 and str(inner[0][0]) == "BRANCH":
                for br in inner[0][1][1]:
                    (o2, a2), = list(br)
                    assert str(o2) == "LITERAL"
                    alts.add(chr(a2))
            elif len(inner) == 1 and str(inner[0][0]) == "IN":
                for o2, a2 in inner[0][1]:
                    assert str(o2) == "LITERAL"
                    alts.add(chr(a2))
            else:
                raise AssertionError("unexpected pattern shape")
        except Exception as e:  # noqa
            return dict(verdict="UNKNOWN", message="escape pattern of %s is outside the supported shape: %s" % (name, e), queries=queries)
        if alts != set(table):
            failures.append((name, "pattern alternatives %r differ from map keys %r" % (sorted(alts), sorted(table))))
        # z3 over all code points: esc as a function table
        c = z3.Int("c")
        inmap = z3.Or([c == ord(k) for k in table])
        forbidden = z3.Or([c == ord(k) for k in forb])
        s = z3.Solver()
        s.add(0 <= c, c < 0x110000, forbidden, z3.Not(inmap))
        queries += 1
        if str(s.check()) == "sat":
            failures.append((name, "unescaped reserved character U+%04X" % s.model()[c].as_long()))
        # images: '%' + two upper-case hex digits of the code point, none of them reserved
        img = z3.Function("img_" + name, z3.IntSort(), z3.IntSort(), z3.IntSort())
        cons = []
        for k, v in table.items():
            for i, ch in enumerate(v.ljust(3, "\0")[:3]):
                cons.append(img(ord(k), i) == ord(ch))
            if len(v) != 3:
                failures.append((name, "image of %r has length %d" % (k, len(v))))
        hexd = "0123456789ABCDEF"
        i0 = z3.Int("i")
        s = z3.Solver()
        s.add(*cons)
        s.add(inmap, z3.Or(img(c, 0) != ord("%"),
                           z3.Not(z3.Or([z3.And(img(c, 1) == ord(hexd[h]), c / 16 == h) for h in range(16)])),
                           z3.Not(z3.Or([z3.And(img(c, 2) == ord(hexd[h]), c % 16 == h) for h in range(16)]))))
        queries += 1
        if str(s.check()) == "sat":
            failures.append((name, "image of U+%04X is not its %%XX encoding" % s.model()[c].as_long()))
    return dict(verdict="REFUTED" if failures else "CONFIRMED", queries=queries, validated=queries,
                cex={"failures": [list(f) for f in failures]} if failures else None, message="; ".join("%s: %s" % f for f in failures))


def _escape_concrete(**kw):
    from urllib.parse import unquote

    for s in ["a;b", "x=y", "t\tab", "new\nline", "cr\r", "gt>", "sp ace", "pct%25", "a,b"]:
        for comma in (False, True):
            e = GFFAttributes.escape_value(s, escape_comma=comma)
            if unquote(e) != s or any(ch in e for ch in "\t\n\r;=> ") or (comma and "," in e):
                return False
    return True


ALPHA = ["\t", "\n", "\r", ";", "=", ">", " ", "%", ",", "2", "5", "C", "a", "é", "&", '"']


def escape_roundtrip_fn(n):
    def fn(**kw):
        idx = concretize(*[kw["c%d" % i] for i in range(n)])
        idx = idx if isinstance(idx, list) else [idx]
        with untraced():
            from urllib.parse import unquote

            s = "".join(ALPHA[i] for i in idx)
            for comma in (False, True):
                e = GFFAttributes.escape_value(s, escape_comma=comma)
                if s == "":
                    if e != "nan":
                        return False
                    continue
                if unquote(e) != s or any(ch in e for ch in "\t\n\r;=> ") or (comma and "," in e):
                    return False
            k = GFFAttributes.escape_key(s, lower=False)
            if unquote(k) != s or any(ch in k for ch in "\t\n\r;=> "):
                return False
            kl = GFFAttributes.escape_key(s, lower=True)
            if unquote(kl) != s.lower() or any(ch in kl for ch in "\t\n\r;=> "):
                return False
            # through a full attribute column
            with warnings.catch_warnings():
                warnings.simplefilter("ignore")
                col = str(GFFAttributes(id=s or "x", qualifiers={"k" + s: {s, "v2"}, "empty": {""}}, name=s, parent=s))
            a = parse_attrs(col)
            # a comma inside an ordinary qualifier value is, as documented, a value separator
            exp_vals = sorted({x for v in (s, "v2") for x in (v.split(",") if v else ["nan"])})
            ok = a["ID"] == [s or "x"] and a.get("Name") == [s if s else "nan"] and a.get("Parent") == [s if s else "nan"]
            ok = ok and sorted(set(a.get(("k" + s).lower(), []))) == exp_vals and a.get("empty") == ["nan"] and "\t" not in col and "\n" not in col
            return ok

    return fn


def reserved_keys_fn():
    def fn(i, raise_flag):
        i, raise_flag = concretize(i, raise_flag)
        with untraced():
            key = ["ID", "Name", "Parent", "Alias", "Dbxref", "Note", "id", "parent"][i]
            attrs = GFFAttributes(id="x1", qualifiers={key: {"v"}, "other": {"o"}}, name="n", parent="p", raise_on_reserved_attributes=raise_flag)
            internal = key in ("ID", "Name", "Parent")
            with warnings.catch_warnings():
                warnings.simplefilter("ignore")
                try:
                    col = str(attrs)
                except GFF3ExportException:
                    return internal and raise_flag
            if internal and raise_flag:
                return False
            a = parse_attrs(col)
            pairs = [p.split("=")[0] for p in col.split(";")]
            ok = pairs.count("ID") == 1 and pairs.count("Name") == 1 and pairs.count("Parent") == 1 and a["ID"] == ["x1"] and a["Name"] == ["n"] and a["Parent"] == ["p"]
            if not internal:
                ok = ok and a.get(key if key[0].isupper() else key.lower()) == ["v"]
            return ok and a.get("other") == ["o"]

    return fn


def non_set_refused():
    def fn(x):
        try:
            GFFAttributes(id="a", qualifiers={"k": ["list"]})
        except GFF3ExportException:
            return True
        return False

    return fn


def writer_fn(add_sequences):
    def fn(s0, l0, g, l1):
        s0, l0, g, l1 = concretize(s0, l0, g, l1)
        with untraced():
            from inscripta.biocantor.io.gff3.writer import collection_to_gff3

            kw = dict(s0=s0, l0=l0, g=g, l1=l1)
            par = chrom_parent(GENOME40) if add_sequences else None
            colls = []
            for name, shift in (("chrB", 0), ("chrA", 1)):
                # (the two collections carry different CDS coordinates: identical CDSs share one guid -> known finding F15)
                ex = [(s0 + shift, s0 + shift + l0), (s0 + shift + l0 + g, s0 + shift + l0 + g + l1)]
                t1 = TranscriptInterval([e[0] for e in ex], [e[1] for e in ex], PLUS, [ex[1][0]], [ex[1][1]], [CDSFrame.ONE], transcript_id="t",
                                        sequence_name=name, parent_or_seq_chunk_parent=chrom_parent(GENOME40, name) if add_sequences else None)
                t2 = TranscriptInterval([ex[0][0]], [ex[1][1]], PLUS, [ex[0][0]], [ex[0][1]], [CDSFrame.ZERO], transcript_id="u", sequence_name=name,
                                        parent_or_seq_chunk_parent=chrom_parent(GENOME40, name) if add_sequences else None)
                gene = GeneInterval([t1, t2], gene_id="g", sequence_name=name,
                                    parent_or_seq_chunk_parent=chrom_parent(GENOME40, name) if add_sequences else None)
                colls.append(AnnotationCollection(genes=[gene], sequence_name=name,
                                                  parent_or_seq_chunk_parent=chrom_parent(GENOME40, name) if add_sequences else None))
            buf = io.StringIO()
            collection_to_gff3(colls, buf, add_sequences=add_sequences)
            lines = buf.getvalue().rstrip("\n").split("\n")
            if lines[0] != "##gff-version 3":
                return False
            body = [ln for ln in lines[1:] if not ln.startswith("#") and "\t" in ln]
            ids, last = set(), {}
            for ln in body:
                cols = ln.split("\t")
                if len(cols) != 9:
                    return False
                a = parse_attrs(cols[8])
                if a["ID"][0] in ids or any(p not in ids for p in a.get("Parent", [])):
                    return False
                ids.add(a["ID"][0])
                if not (1 <= int(cols[3]) <= int(cols[4])):
                    return False
                if last.get(cols[0], 0) > int(cols[3]):
                    return False
                last[cols[0]] = int(cols[3])
                if (cols[2] == "CDS") != (cols[7] in "012"):
                    return False
            seqids = [ln.split("\t")[0] for ln in body]
            if seqids != sorted(seqids) or len(body) != 2 * 8:
                return False
            if add_sequences:
                if "##FASTA" not in lines or lines.count("##sequence-region chrA 1 40") != 1 or lines.count("##sequence-region chrB 1 40") != 1:
                    return False
                fa = lines[lines.index("##FASTA") + 1:]
                return fa[0] == ">chrA" and "".join(x for x in fa[1: fa.index(">chrB")]) == GENOME40
            return "##FASTA" not in lines

    return fn


def shared_cds_ids_fn():
    """two isoforms with the SAME CDS: every row ID of the gene's export must still be unique"""

    def fn(d):
        d = concretize(d)
        with untraced():
            t1 = TranscriptInterval([0], [20], PLUS, [5], [14], [CDSFrame.ZERO], transcript_id="t", sequence_name="chrA")
            t2 = TranscriptInterval([2], [30], PLUS, [5 + d], [14 + d], [CDSFrame.ZERO], transcript_id="u", sequence_name="chrA")
            gene = GeneInterval([t1, t2], gene_id="g", sequence_name="chrA")
            ids = [parse_attrs(str(r.attributes))["ID"][0] for r in gene.to_gff()]
            return len(ids) == len(set(ids))

    return fn



# ------------------------------------------------------------------ export -> parse (io.gff3.parser; realised, body runs natively)
REPARSE_LAYOUTS = {  # exon layouts relative to the transcript start (lengths, gaps); L3 has a 0-bp gap between exons 1 and 2
    "e1": [(0, 5)],
    "e2": [(0, 4), (7, 11)],
    "e3adj": [(0, 3), (3, 6), (9, 12)],
}
_BT = [(None, None), ("protein_coding", "protein_coding"), ("protein_coding", None), ("ncRNA", "ncRNA"), ("protein_coding", "ncRNA"), (None, "protein_coding"),
       ("pseudogene", "pseudogene")]  # a CODING pseudogene transcript is what BioCantor's own GenBank parser produces for /pseudo CDS features


def _tmp_path(tag):
    import os
    import tempfile

    d = "/dev/shm" if os.path.isdir("/dev/shm") and os.access("/dev/shm", os.W_OK) else tempfile.gettempdir()
    return os.path.join(d, "verif_c11_%s_%d.gff3" % (tag, os.getpid()))


def _export_parse(coll, fasta, tag="a"):
    """collection_to_gff3 -> file -> parse_standard_gff3 / parse_gff3_embedded_fasta; returns (text, [AnnotationCollection])"""
    import logging
    import os

    from inscripta.biocantor.io.gff3.parser import parse_gff3_embedded_fasta, parse_standard_gff3
    from inscripta.biocantor.io.gff3.writer import collection_to_gff3

    path = _tmp_path(tag)
    logging.disable(logging.CRITICAL)
    try:
        with warnings.catch_warnings():
            warnings.simplefilter("ignore")
            with open(path, "w") as fh:
                collection_to_gff3([coll], fh, add_sequences=fasta)
            text = open(path).read()
            recs = list(parse_gff3_embedded_fasta(path) if fasta else parse_standard_gff3(path))
            return text, [r.to_annotation_collection() for r in recs]
    finally:
        logging.disable(logging.NOTSET)
        if os.path.exists(path):
            os.remove(path)


def _reparse_model(strand, layout, s0, a, b, f0, ids, bt, iso, fasta, fm=0):
    """builds the source collection; returns (collection, gene, [transcripts])"""
    from inscripta.biocantor.gene.cds import CDSInterval
    from inscripta.biocantor.location.location_impl import CompoundInterval, SingleInterval

    par = chrom_parent(GENOME40) if fasta else None
    exons = [(s0 + x, s0 + y) for x, y in REPARSE_LAYOUTS[layout]]
    gt, tt = _BT[bt]
    gt = Biotype[gt] if gt else None
    tt = Biotype[tt] if tt else None
    # identifier patterns: 0 none; 1 all ids and symbols; 2 ids + locus tag; 3 FIRST isoform with id, second without, locus tag given; 4 first isoform
    # without id, second with, no locus tag (mixed patterns: an id-less isoform must not inherit anything from its sibling)
    tkw = dict(transcript_id="tx1" if ids in (1, 2, 3) else None, transcript_symbol="ts1" if ids == 1 else None)
    tid2 = "tx2" if ids in (1, 2, 4) else None
    gkw = dict(gene_id="gid" if ids else None, gene_symbol="gs" if ids == 1 else None, locus_tag="lt" if ids in (2, 3) else None)
    cds = None
    if a >= 0:
        # CDS = transcript-relative window [a, b) (5'->3' on the transcript's strand) mapped to one genomic block per exon touched
        cds, off = [], 0
        for s, e in (exons if strand is PLUS else exons[::-1]):
            lo, hi = max(a, off), min(b, off + (e - s))
            if lo < hi:
                cds.append((s + lo - off, s + hi - off) if strand is PLUS else (e - (hi - off), e - (lo - off)))
            off += e - s
        cds.sort()
        cl = CompoundInterval([c[0] for c in cds], [c[1] for c in cds], strand) if len(cds) > 1 else SingleInterval(cds[0][0], cds[0][1], strand)
        frames = CDSInterval.construct_frames_from_location(cl, CDSFrame(f0))
        if fm == 1:  # every block annotated with the same frame (a frameshifted / re-synchronising model unless lengths are multiples of 3)
            frames = [CDSFrame(f0)] * len(cds)
        elif fm == 2:  # consistent chain, then shifted by one from the second block (in 5'->3' order) on
            order = list(range(len(cds))) if strand is PLUS else list(range(len(cds)))[::-1]
            frames = list(frames)
            for k in order[1:]:
                frames[k] = frames[k].shift(1)
        tkw.update(protein_id="pid" if ids == 1 else None, product="prod" if ids == 1 else None)
    t1 = TranscriptInterval([e[0] for e in exons], [e[1] for e in exons], strand, [c[0] for c in cds] if cds else None, [c[1] for c in cds] if cds else None,
                            frames if cds else None, sequence_name="chr1", transcript_type=tt, qualifiers={"note": ["n1", "a;b=c d"], "product_source": ["ps"], "tver": ["1.10", "007"]},
                            parent_or_seq_chunk_parent=par, **tkw)
    txs = [t1]
    if iso == 1:  # non-coding isoform on the first exon
        txs.append(TranscriptInterval([exons[0][0]], [exons[0][1]], strand, sequence_name="chr1", transcript_type=tt, transcript_id=tid2,
                                      qualifiers={"tq2": ["w"]}, parent_or_seq_chunk_parent=par))
    elif iso == 2:  # coding isoform spanning the exons' hull, CDS = whole transcript, frame 0
        txs.append(TranscriptInterval([exons[0][0]], [exons[-1][1]], strand, [exons[0][0]], [exons[-1][1]], [CDSFrame.ZERO], sequence_name="chr1",
                                      transcript_type=tt, transcript_id=tid2, parent_or_seq_chunk_parent=par))
    gene = GeneInterval(txs, sequence_name="chr1", gene_type=gt, qualifiers={"gq": ["v%1"], "idx": ["7"], "db_version": ["1.10"], "build": ["007", "1e3", "+5"]}, parent_or_seq_chunk_parent=par, **gkw)
    coll = AnnotationCollection(genes=[gene], sequence_name="chr1", parent_or_seq_chunk_parent=par)
    return coll, gene, txs


def _tx_key(d):
    return (tuple(d["exon_starts"]), tuple(d["exon_ends"]), tuple(d["cds_starts"] or ()), tuple(d["cds_ends"] or ()))


def _models_survive(coll, parsed, fasta, check_tt=True):
    """the property's gene-model clause: same exons, CDS blocks, frames, strand and identifiers for every gene"""
    if len(parsed) != 1:
        return False
    src, dst = coll.to_dict(), parsed[0].to_dict()
    if len(dst["genes"]) != len(src["genes"]) or dst["sequence_name"] != src["sequence_name"]:
        return False
    for g0, g1 in zip(src["genes"], dst["genes"]):
        for k in ("gene_symbol", "locus_tag", "gene_type"):
            if g0[k] != g1[k]:
                return False
        if g0["gene_id"] is not None and g0["gene_id"] != g1["gene_id"]:
            return False
        for k, v in (g0["qualifiers"] or {}).items():
            if sorted((g1["qualifiers"] or {}).get(k, [])) != sorted(v):
                return False
        t0s = sorted(g0["transcripts"], key=_tx_key)
        t1s = sorted(g1["transcripts"], key=_tx_key)
        if len(t0s) != len(t1s):
            return False
        for t0, t1 in zip(t0s, t1s):
            for k in ("exon_starts", "exon_ends", "strand", "cds_starts", "cds_ends", "cds_frames", "protein_id", "product"):
                if t0[k] != t1[k]:
                    return False
            # a transcript id survives; a transcript without one comes back without, or (documented fallback) with its gene's locus tag
            if t1["transcript_id"] != (t0["transcript_id"] if t0["transcript_id"] is not None else g1["locus_tag"]):
                return False
            if t0["transcript_symbol"] is not None and t0["transcript_symbol"] != t1["transcript_symbol"]:
                return False
            if check_tt and t0["transcript_type"] is not None and t0["transcript_type"] != t1["transcript_type"]:
                return False
            for k, v in (t0["qualifiers"] or {}).items():
                if sorted((t1["qualifiers"] or {}).get(k, [])) != sorted(v):
                    return False
    if fasta:
        # sequence attached: every transcript extracts the same spliced / coding sequence as its source
        p = parsed[0]
        if p.chromosome_location.parent is None or str(p.chromosome_location.parent.sequence) != GENOME40:
            return False
        def seqs(t):
            try:
                prot = str(t.get_protein_sequence()) if t.is_coding else ""
            except ValueError as e:  # a CDS without a complete codon is refused (C05/C19): the same refusal on both sides
                prot = "ValueError: %s" % e
            return str(t.get_spliced_sequence()), prot

        for g0, g1 in zip(coll.genes, p.genes):
            if sorted(seqs(t) for t in g0.transcripts) != sorted(seqs(t) for t in g1.transcripts):
                return False
    return True


def _cols8(text):
    return sorted(tuple(ln.split("\t")[:8]) for ln in text.splitlines() if "\t" in ln and not ln.startswith("#"))


def reparse_fn(strand, layout, iso, fasta, literal=False, generations=3):
    L = sum(y - x for x, y in REPARSE_LAYOUTS[layout])

    def fn(s0, a, b, f0, fm, ids, bt):
        s0, a, b, f0, fm, ids, bt = concretize(s0, a, b, f0, fm, ids, bt)
        with untraced():
            coll, gene, txs = _reparse_model(strand, layout, s0, a, b, f0, ids, bt, iso, fasta, fm)
            text0, parsed = _export_parse(coll, fasta, "a")
            if not _models_survive(coll, parsed, fasta):
                return False
            # re-export of the parsed result: same rows in columns 1-8 (IDs are content digests and the parser folds the gene's
            # qualifiers into its transcripts, so column 9 settles only from the second generation on: F17), and a fixed point
            # from the second generation on
            text1, parsed1 = _export_parse(parsed[0], fasta, "b")
            if literal:
                return sorted(text1.splitlines()) == sorted(text0.splitlines())
            if _cols8(text1) != _cols8(text0):
                return False
            if not _models_survive(parsed[0], parsed1, fasta, check_tt=False):
                return False
            if generations < 3 or _BT[bt][0] is None:
                return True  # a gene without biotype is written as 'unspecified', which the parser keeps as a qualifier: settles one generation later
            text2, parsed2 = _export_parse(parsed1[0], fasta, "c")
            return sorted(text2.splitlines()) == sorted(text1.splitlines())  # (rows sharing a start may swap between generations)

    def pre(s0, a, b, f0, fm, ids, bt):
        return 0 <= s0 and s0 <= 1 and ((a == -1 and b == -1 and f0 == 0 and fm == 0) or (0 <= a and a < b and b <= L)) and 0 <= f0 and f0 <= 2 \
            and 0 <= fm and fm <= 2 and 0 <= ids and ids <= 4 and 0 <= bt and bt < len(_BT)

    return fn, pre


def obligations(tier):
    out = []
    quick = tier == "quick"
    base = dict(s0=int, l0=int, g=int, l1=int, fs=int, fl=int)
    for strand in (PLUS, MINUS):
        for frames in (([1],), ([0, 2],), ([2],)) if quick else (([0],), ([1],), ([2],), ([0, 2],), ([1, 1],), ([2, 0],)):
            frames = frames[0] if isinstance(frames, tuple) else frames
            for mode in (None, "chunk_rel", "chunk_chrom") if quick else (None, "chunk_chrom", "chunk_rel"):
                if quick and mode == "chunk_chrom" and not (strand is PLUS and frames == [0, 2]):
                    continue
                if quick and mode == "chunk_chrom":
                    pass
                elif quick and mode and (strand is MINUS or frames != [1]):
                    continue
                params = dict(base)
                if mode:
                    params["w"] = int
                ex = dict(s0=103, l0=5, g=3, l1=7, fs=101, fl=4, w=100)
                if mode:
                    ex.update(fs=0, fl=1)
                ex = {k: v for k, v in ex.items() if k in params}
                out.append(Obl("rows_%s_f%s_%s" % (sname(strand), "".join(map(str, frames)), mode or "nochunk"), gene_rows_fn(strand, frames, mode), params,
                               rows_pre(mode, frames, strand), budget=900, cost=400 if mode else 40, stubs=dict(tokens=True),
                               desc="exported rows (gene with coding+non-coding transcript, feature collection) read back column by column: 9 columns, "
                                    "1-based inclusive start<=end equal to the source blocks, strand symbol, phase only on CDS rows == frame-derived phase, "
                                    "unique IDs, every Parent defined earlier, rows ordered by start, %s coordinates" % ("chunk" if mode == "chunk_rel" else "chromosome"),
                               bounds="2 exons, CDS frames %s, unbounded symbolic coordinates%s" % (frames, ", chunk of length 30 at symbolic offset" if mode else ""),
                               examples=[ex] if mode else [ex, dict(ex, fs=ex["s0"] + 1)]))
    for strand in (PLUS, MINUS):
        out.append(Obl("rows_cut_by_chunk_%s" % sname(strand), rows_cut_fn(strand), dict(s0=int, l0=int, g=int, l1=int, w=int),
                       lambda s0, l0, g, l1, w: s0 >= 0 and l0 >= 1 and g >= 1 and l1 >= 1 and w >= 0 and (s0 < w + 30 and w < s0 + l0 + g + l1) and
                       ((s0 < w + 30 and w < s0 + l0) or (s0 + l0 + g < w + 30 and w < s0 + l0 + g + l1)), budget=900, cost=120, stubs=dict(tokens=True),
                       desc="chunk-relative rows of a transcript CUT by the chunk window (inside an exon, in the intron, exactly at an exon edge): every row is a valid "
                            "1-based interval inside the chunk and the exon rows are exactly the non-empty in-window parts of the exons",
                       bounds="2 exons, chunk length 30 at a symbolic offset, unbounded symbolic coordinates (at least one exon base inside the window)",
                       examples=[dict(s0=2, l0=6, g=4, l1=8, w=5), dict(s0=2, l0=6, g=4, l1=8, w=8), dict(s0=20, l0=6, g=4, l1=80, w=0)]))
    for strand in (PLUS, MINUS):
        out.append(Obl("rows_on_minus_chunk_%s" % sname(strand), rows_minus_chunk_fn(strand), dict(s0=int, l0=int, g=int, l1=int, co=int, ce=int, w=int),
                       lambda s0, l0, g, l1, co, ce, w: 3 <= w and w <= 5 and w <= s0 and s0 <= w + 3 and 4 <= l0 and l0 <= 6 and 2 <= g and g <= 3 and 4 <= l1 and l1 <= 6
                       and 0 <= co and co <= 2 and 0 <= ce and ce <= 2, budget=900, cost=120,
                       desc="gene with a coding 2-exon transcript and a feature collection on a chunk placed on the MINUS strand: chromosome-mode rows equal the parent-less "
                            "twin's, chunk-relative rows are their mirror image with the strand of the chunk coordinate system on every row and unchanged phases, sorted by start",
                       bounds="exons 4..6 nt, intron 2..3, CDS start / end 0..2 nt inside the outer exons, chunk of 30 nt at 3..5 holding everything (realised)",
                       examples=[dict(s0=6, l0=5, g=2, l1=6, co=1, ce=2, w=4), dict(s0=3, l0=4, g=3, l1=4, co=0, ce=0, w=3)]))
    for strand in (PLUS, MINUS):
        out.append(Obl("parse_cds_only_transcript_%s" % sname(strand), parse_cds_only_fn(strand), dict(s0=int, l0=int, g1=int, l1=int, g2=int, l2=int, nseg=int),
                       lambda s0, l0, g1, l1, g2, l2, nseg: 10 <= s0 and s0 <= 11 and 1 <= l0 and l0 <= 3 and 2 <= g1 and g1 <= 3 and 1 <= l1 and l1 <= 3 and g2 == 2 and 1 <= l2 and
                       l2 <= 3 and 1 <= nseg and nseg <= 3, budget=900, cost=60,
                       desc="GFF3 text with a gene / mRNA / CDS rows and no exon rows, 1..3 CDS segments of 1..3 nt: parse_standard_gff3 builds a coding transcript whose "
                            "exons and CDS blocks are exactly the segments (1-nt segments included) and on which every CDS position can be placed",
                       bounds="1..3 CDS segments of 1..3 nt, gaps 2..3, start 10..11 (realised), parsed by gffutils natively",
                       examples=[dict(s0=10, l0=3, g1=2, l1=1, g2=2, l2=3, nseg=3), dict(s0=11, l0=1, g1=3, l1=2, g2=2, l2=1, nseg=2)]))
    out.append(Obl("escape_tables", _smt_escape, {}, None, kind="smt", twin=False, cost=3, concrete=_escape_concrete,
                   desc="live escape tables: pattern alternatives == map keys; every reserved character (tab, newline, CR, ; = > space %% and , in the "
                        "with-comma map) is a key (z3 over all code points); every image is %% + the two upper-case hex digits of the code point",
                   bounds="all Unicode code points"))
    na = len(ALPHA)
    for n in ((0, 1, 2, 3) if quick else (0, 1, 2, 3, 4)):
        if n <= 2:
            out.append(Obl("escape_roundtrip_len%d" % n, escape_roundtrip_fn(n), {"c%d" % i: int for i in range(n)} or {"z": int},
                           (lambda n: (lambda **kw: all(0 <= kw["c%d" % i] and kw["c%d" % i] < na for i in range(n)) and kw.get("z", 0) == 0))(n),
                           budget=300, cost=2 + 10 * n,
                           desc="escape_value / escape_key / GFFAttributes.__str__ on every string of length %d over the special-character alphabet: no "
                                "separator survives unescaped and percent-decoding returns the original (keys up to case folding, empty value -> nan)" % n,
                           bounds="%d strings" % (na ** n), examples=[{"c%d" % i: i for i in range(n)} or {"z": 0}]))
        else:
            for first in range(na):
                if n == 4 and first % 4:
                    continue
                out.append(Obl("escape_roundtrip_len%d_first%d" % (n, first), escape_roundtrip_fn(n), {"c%d" % i: int for i in range(n)},
                               (lambda n, first: (lambda **kw: kw["c0"] == first and all(0 <= kw["c%d" % i] and kw["c%d" % i] < na for i in range(1, n))))(n, first),
                               budget=600, cost=25 if n == 3 else 300,
                               desc="as escape_roundtrip, strings of length %d starting with %r" % (n, ALPHA[first]), bounds="%d strings" % (na ** (n - 1)),
                               examples=[dict({"c0": first}, **{"c%d" % i: i for i in range(1, n)})]))
    out.append(Obl("reserved_keys", reserved_keys_fn(), dict(i=int, raise_flag=bool), lambda i, raise_flag: 0 <= i and i < 8, budget=60, cost=3,
                   desc="ID/Name/Parent are never emitted from qualifiers (refused or dropped); other reserved keys keep their case; ID/Name/Parent appear exactly once",
                   bounds="8 keys x raise flag", examples=[dict(i=0, raise_flag=True), dict(i=3, raise_flag=False)]))
    out.append(Obl("row_ids_unique_isoforms", shared_cds_ids_fn(), dict(d=int), lambda d: 0 <= d and d <= 3, budget=60, cost=3,
                   desc="row IDs of a gene with two coding isoforms are unique, also when the isoforms share their CDS", bounds="CDS offset 0..3 (realised)",
                   examples=[dict(d=1)]))
    out.append(Obl("non_set_values_refused", non_set_refused(), dict(x=int), lambda x: x == 0, budget=30, cost=1,
                   desc="attribute dictionaries whose values are not sets are refused", bounds="-", examples=[dict(x=0)]))
    for add in (False, True):
        out.append(Obl("writer_file_%s" % ("fasta" if add else "plain"), writer_fn(add), dict(s0=int, l0=int, g=int, l1=int),
                       lambda s0, l0, g, l1: 0 <= s0 and s0 <= 2 and 2 <= l0 and l0 <= 4 and 1 <= g and g <= 2 and 2 <= l1 and l1 <= 4, budget=300, cost=30,
                       desc="collection_to_gff3 on two collections (real digests): version header, collections ordered by sequence name, rows ordered by "
                            "start per sequence, unique IDs, Parents defined earlier, phases on CDS only%s" % (", ##sequence-region and ##FASTA sections" if add else ""),
                       bounds="2 collections x 1 gene x 2 coding transcripts, realised small coordinates", examples=[dict(s0=1, l0=3, g=2, l1=4)]))
    # ---- export -> parse legs (io.gff3.parser on the exported text)
    P7 = dict(s0=int, a=int, b=int, f0=int, fm=int, ids=int, bt=int)
    combos = [(PLUS, "e2", 1, False), (MINUS, "e3adj", 0, False), (MINUS, "e2", 2, True)] if quick else \
        [(st, lay, iso, fa) for st in (PLUS, MINUS) for lay in REPARSE_LAYOUTS for iso in (0, 1, 2) for fa in (False, True) if not (fa and iso == 1)]
    for st, lay, iso, fa in combos:
        L = sum(y - x for x, y in REPARSE_LAYOUTS[lay])
        fn, pre = reparse_fn(st, lay, iso, fa, generations=2 if quick else 3)
        tag = "%s_%s_iso%d_%s" % (sname(st), lay, iso, "fasta" if fa else "plain")
        pre_struct = (lambda pre: (lambda s0, a, b, f0, fm, ids, bt: pre(s0, a, b, f0, fm, ids, bt) and ids == 1 and bt == 1 and (s0 == 1 or not quick)))(pre)
        pre_attrs = (lambda pre, L: (lambda s0, a, b, f0, fm, ids, bt: pre(s0, a, b, f0, fm, ids, bt) and s0 == 1 and fm == 0 and
                                     ((a == -1) or (a == 1 and b == L - 1 and f0 == 1))))(pre, L)
        out.append(Obl("reparse_struct_" + tag, fn, P7, pre_struct, budget=900, cost=60 if quick else 120, consts=dict(BT=_BT),
                       desc="collection_to_gff3 -> parse_standard_gff3/parse_gff3_embedded_fasta, gene STRUCTURE: every gene comes back with the same exons, CDS "
                            "blocks, frames (consistent, constant and shifted frame vectors) and strand, plus its identifiers%s; re-export of the parsed result has "
                            "the same rows in columns 1-8%s" % (", sequence attached and extracting the same spliced/protein sequences" if fa else "",
                                                               "" if quick else " and is a fixed point from the second generation on"),
                       bounds="exon layout %s at start %s, every CDS window [a,b) of the transcript (or none), start frame 0..2 x 3 frame-vector modes, second "
                              "isoform kind %d (realised; the parser runs natively on the exported file)" % (lay, "1" if quick else "0..1", iso),
                       examples=[dict(s0=1, a=1, b=L - 1, f0=2, fm=1, ids=1, bt=1), dict(s0=1, a=-1, b=-1, f0=0, fm=0, ids=1, bt=1)]))
        if quick and fa:
            continue
        out.append(Obl("reparse_attrs_" + tag, fn, P7, pre_attrs, budget=300, cost=10, consts=dict(BT=_BT),
                       desc="as reparse_struct, gene ATTRIBUTES: gene/transcript ids, symbols, locus tag, biotypes, protein id, product and qualifiers survive",
                       bounds="5 identifier patterns (incl. isoforms with and without transcript id in one gene) x %d gene/transcript biotype patterns x {non-coding, one CDS window} (realised)" % len(_BT),
                       examples=[dict(s0=1, a=1, b=L - 1, f0=1, fm=0, ids=2, bt=2), dict(s0=1, a=-1, b=-1, f0=0, fm=0, ids=1, bt=1)]))
    fn, pre = reparse_fn(PLUS, "e2", 0, False, literal=True)
    out.append(Obl("reexport_reproduces_file_literal", fn, P7,
                   (lambda pre: (lambda s0, a, b, f0, fm, ids, bt: pre(s0, a, b, f0, fm, ids, bt) and s0 == 1 and f0 == 0 and fm == 0 and bt == 1 and
                                 (a == -1 or (a == 1 and b == 7))))(pre),
                   budget=120, cost=5, desc="export of the parsed result reproduces the exported file (literal clause, up to the order of rows sharing a start)",
                   bounds="2-exon gene, 3 identifier patterns, coding/non-coding (realised)", examples=[dict(s0=1, a=1, b=7, f0=0, fm=0, ids=1, bt=1)]))
    return out
