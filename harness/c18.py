"""C18 — identifier/qualifier extraction is order-independent and priority-respecting."""
import itertools
import string

import harness.common  # noqa: F401
from inscripta.biocantor.io.features import extract_feature_name_id, extract_feature_types, merge_qualifiers

from vlib.obl import Obl
from vlib.sym import concretize, untraced

META = dict(
    functions=["io.features.extract_feature_name_id / extract_feature_types / merge_qualifiers, FeatureIntervalNameQualifiers, "
               "FeatureIntervalIDQualifiers and the three key regexes", "AbstractFeatureInterval._merge_qualifiers and export_qualifiers of FeatureInterval / "
               "TranscriptInterval / CDSInterval", "io.gff3.parser.filter_and_sort_qualifiers (BIOCANTOR_QUALIFIERS_REGEX)"],
    bounds=dict(quick="every ordered selection of 3 distinct keys out of a 14-key catalogue (all 9 recognised keys in mixed case, "
                      "look-alikes, note); type extraction over every ordered pair of a 12-key catalogue; merges of every pair of "
                      "dicts drawn from a 9-dict catalogue",
                thorough="every ordered selection of 4 keys (24024 orderings); type extraction over triples"),
    outside="GenBank locus-tag grouping under record permutation (parser not importable: PyVCF absent) is not claimed; two case variants of the SAME key in one dictionary",
    exhaustive=True,
    stubs=["S11; inputs are realised (dictionary keys are hashed), the body runs natively, the solver closes the finite order space"],
    assumptions=["the documented priority list: feature_name < standard_name < name < gene < gene_name < label < operon; feature_id < id"],
)
KEYS = ["feature_name", "Standard_Name", "NAME", "gene", "Gene_Name", "label", "OPERON", "feature_id", "ID", "gene_names", "xid",
        "names", "note", "locus_tag"]
RANK = {"feature_name": ("n", 0), "standard_name": ("n", 10), "name": ("n", 15), "gene": ("n", 20), "gene_name": ("n", 30),
        "label": ("n", 40), "operon": ("n", 50), "feature_id": ("i", 0), "id": ("i", 255)}


def spec_name_id(keys_in_order):
    names = sorted((RANK[k.lower()][1], "v_" + k) for k in keys_in_order if k.lower() in RANK and RANK[k.lower()][0] == "n")
    ids = sorted((RANK[k.lower()][1], "v_" + k) for k in keys_in_order if k.lower() in RANK and RANK[k.lower()][0] == "i")
    name = names[0][1] if names else None
    fid = ids[0][1] if ids else None
    if name is None and fid is None and "note" in keys_in_order:
        name = fid = ("v_note rest.").split()[0].strip(string.punctuation)
    return name, fid


def name_id_fn(n):
    def fn(**kw):
        idx = concretize(*[kw["k%d" % i] for i in range(n)])
        idx = idx if isinstance(idx, list) else [idx]
        with untraced():
            ks = [KEYS[i] for i in idx]
            q = {}
            for k in ks:
                q[k] = ["v_" + k + (" rest." if k == "note" else ""), "second"]
            snapshot = {k: list(v) for k, v in q.items()}
            got = extract_feature_name_id(q)
            return got == spec_name_id(ks) and q == snapshot and list(q) == ks

    return fn


def _distinct_pre(n, m, first=None):
    def pre(**kw):
        vals = [kw["k%d" % i] for i in range(n)]
        for v in vals:
            if not (0 <= v and v < m):
                return False
        for a, b in itertools.combinations(vals, 2):
            if not a != b:
                return False
        if first is not None and not vals[0] == first:
            return False
        return True

    return pre


TKEYS = ["gbkey", "GBKEY2", "feature_type", "Regulatory_Class_1", "xtype", "type", "class", "_Type", "ncRNA_class", "gb_key", "note",
         "feature_type_original"]
TSUB = ("_class", "gbkey", "_type")


def types_fn(n):
    def fn(**kw):
        idx = concretize(*[kw["k%d" % i] for i in range(n)])
        idx = idx if isinstance(idx, list) else [idx]
        with untraced():
            ks = [TKEYS[i] for i in idx]
            q = {k: ["t_" + k, "u_" + k] for k in ks}
            types = {"primary"}
            extract_feature_types(types, q)
            exp = {"primary"}
            for k in ks:
                if any(s in k.lower() for s in TSUB):
                    exp.update(q[k])
            return types == exp

    return fn


DICTS = [{}, {"a": ["x"]}, {"a": ["z", "y", "z"]}, {"b": ["q", "p"]}, {"a": ["y"], "b": ["p", "p"]}, {"c": []}, {"a": ["x", "b"], "c": ["m"]},
         {"b": ["r", "q", "a"]}, {1: ["n", "m"]}]


def merge_fn():
    def fn(i, j):
        i, j = concretize(i, j)
        with untraced():
            import copy

            a, b = copy.deepcopy(DICTS[i]), copy.deepcopy(DICTS[j])
            got = merge_qualifiers(a, b)
            exp = {}
            for k in list(a) + list(b):
                exp[k] = sorted(set(a.get(k, [])) | set(b.get(k, [])))
            return got == exp and all(isinstance(v, list) for v in got.values()) and a == DICTS[i] and b == DICTS[j] and \
                all(got[k] is not a.get(k) and got[k] is not b.get(k) for k in got)

    return fn


QD = [None, {}, {"a": ["x"]}, {"a": ["z", "y"]}, {"b": ["q", "p"]}, {"a": ["y"], "b": ["p"]}, {"c": []}, {"a": ["x", "b"], "c": ["m"]},
      {"b": ["r", "q", "a"], "note": ["n"]}, {"A": ["x"]}]


def interval_merge_fn(kind):
    """the model-side merge (AbstractFeatureInterval._merge_qualifiers, used by export_qualifiers / to_gff with the parent's qualifiers)"""

    def fn(i, j):
        i, j = concretize(i, j)
        with untraced():
            import copy

            from inscripta.biocantor.gene.cds import CDSInterval
            from inscripta.biocantor.gene.cds_frame import CDSFrame
            from inscripta.biocantor.gene.feature import FeatureInterval
            from inscripta.biocantor.gene.transcript import TranscriptInterval
            from inscripta.biocantor.location.strand import Strand

            own = copy.deepcopy(QD[i])
            if kind == "feature":
                obj = FeatureInterval([2], [9], Strand.PLUS, qualifiers=own)
                extra = set()
            elif kind == "transcript":
                obj = TranscriptInterval([2], [9], Strand.MINUS, qualifiers=own)
                extra = {"transcript_biotype"}
            else:
                obj = CDSInterval([2], [8], Strand.PLUS, [CDSFrame.ZERO], qualifiers=own)
                extra = set()
            parent = None if QD[j] is None else {k: set(v) for k, v in QD[j].items()}
            parent_snapshot = copy.deepcopy(parent)
            before = copy.deepcopy(obj.qualifiers)
            exp = {k: set(v) for k, v in (QD[i] or {}).items()}
            for k, v in (QD[j] or {}).items():
                exp.setdefault(k, set()).update(v)
            got = obj._merge_qualifiers(parent)
            ok = got == exp and all(isinstance(v, set) for v in got.values())
            exported = obj.export_qualifiers(parent)
            ok = ok and {k: v for k, v in exported.items() if k not in extra} == exp and set(exported) - set(exp) <= extra
            # operands unchanged and not aliased into the result
            ok = ok and obj.qualifiers == before and parent == parent_snapshot
            ok = ok and all(got[k] is not obj.qualifiers.get(k) and (parent is None or got[k] is not parent.get(k)) for k in got)
            return ok

    return fn


def filter_sort_fn():
    """io.gff3.parser.filter_and_sort_qualifiers: drops the keys BioCantor extracts as identifiers / GFF3 reserved terms, sorts the rest"""

    def fn(i, j, k):
        i, j, k = concretize(i, j, k)
        with untraced():
            import re

            from inscripta.biocantor.io.gff3.constants import BIOCANTOR_QUALIFIERS_REGEX
            from inscripta.biocantor.io.gff3.parser import filter_and_sort_qualifiers

            keys = [FKEYS[x] for x in (i, j, k)]
            q = {key: ["b_" + key, "a_" + key] for key in keys}
            snapshot = {a: list(b) for a, b in q.items()}
            got = filter_and_sort_qualifiers(q)
            from inscripta.biocantor.io.gff3.constants import BioCantorGFF3ReservedQualifiers, BioCantorQualifiers

            reserved = set()
            for e in list(BioCantorQualifiers.__members__.values()) + list(BioCantorGFF3ReservedQualifiers.__members__.values()):
                reserved.update({e.name.lower(), e.value})
            exp = {key: sorted(v) for key, v in q.items() if key not in reserved}
            ok = (got == exp) if exp else (got is None)
            return ok and q == snapshot and all(r in reserved for r in RESERVED_EXACT)

    return fn


def filter_history_fn():
    """filter_and_sort_qualifiers asked about two dictionaries one after the other in a FRESHLY LOADED parser module (no verdict of an earlier path or process
    can be remembered): the spelling of a key in the first dictionary must not decide the fate of a differently-cased spelling in the second"""

    def fn(i, va, vb, swap):
        i, va, vb, swap = concretize(i, va, vb, swap)
        with untraced():
            import importlib
            import sys

            mod = importlib.reload(sys.modules["inscripta.biocantor.io.gff3.parser"]) if "inscripta.biocantor.io.gff3.parser" in sys.modules else \
                importlib.import_module("inscripta.biocantor.io.gff3.parser")
            from inscripta.biocantor.io.gff3.constants import BioCantorGFF3ReservedQualifiers, BioCantorQualifiers

            reserved = set()
            for e in list(BioCantorQualifiers.__members__.values()) + list(BioCantorGFF3ReservedQualifiers.__members__.values()):
                reserved.update({e.name.lower(), e.value})
            base = RESERVED_EXACT[i]
            spell = [base, base.lower(), base.upper(), base.title(), base.capitalize(), base.swapcase()]
            ka, kb = spell[va], spell[vb]
            seq = [ka, kb, ka] if not swap else [kb, ka, kb]
            ok = True
            for key in seq:
                q = {key: ["v2", "v1"], "note": ["n"]}
                got = mod.filter_and_sort_qualifiers(q)
                exp = {k_: sorted(v) for k_, v in q.items() if k_ not in reserved}
                ok = ok and got == exp and q == {key: ["v2", "v1"], "note": ["n"]}
            return ok

    return fn


def gff3_gene_priority_fn():
    """io.gff3.parser: the gene symbol / biotype / id of a parsed gene follow the priority lists (gene_name > gene_symbol > gene > Name; gene_biotype >
    gene_type; gene_id > ID) whatever the order of the attributes in column 9 (GFF3 text written by the harness, parsed by parse_standard_gff3)"""
    SYM = ["gene_name", "gene_symbol", "gene", "Name"]
    BT = ["gene_biotype", "gene_type"]

    def fn(perm, mask, bswap, idfirst):
        perm, mask, bswap, idfirst = concretize(perm, mask, bswap, idfirst)
        with untraced():
            import logging
            import os
            import warnings

            from harness.c11 import _tmp_path
            from inscripta.biocantor.io.gff3.parser import parse_standard_gff3

            order = list(itertools.permutations(range(4)))[perm]
            keys = [SYM[x] for x in order if mask >> x & 1]
            vals = {"gene_name": "sym_gn", "gene_symbol": "sym_gs", "gene": "sym_g", "Name": "sym_N", "gene_biotype": "ncRNA", "gene_type": "protein_coding"}
            bts = BT[::-1] if bswap else BT
            attrs = [("ID", "gene1")] + [(k_, vals[k_]) for k_ in keys] + [(b, vals[b]) for b in bts]
            attrs = attrs + [("gene_id", "GID")] if not idfirst else [("gene_id", "GID")] + attrs
            col9 = ";".join("%s=%s" % kv for kv in attrs)
            rows = ["##gff-version 3", "##sequence-region chr1 1 100",
                    "\t".join(["chr1", "t", "gene", "11", "40", ".", "+", ".", col9]),
                    "\t".join(["chr1", "t", "mRNA", "11", "40", ".", "+", ".", "ID=tx1;Parent=gene1;transcript_id=T1"]),
                    "\t".join(["chr1", "t", "exon", "11", "40", ".", "+", ".", "ID=ex1;Parent=tx1"])]
            path = _tmp_path("c18g")
            logging.disable(logging.CRITICAL)
            try:
                with warnings.catch_warnings():
                    warnings.simplefilter("ignore")
                    with open(path, "w") as fh:
                        fh.write("\n".join(rows) + "\n")
                    recs = list(parse_standard_gff3(path))
            finally:
                logging.disable(logging.NOTSET)
                if os.path.exists(path):
                    os.remove(path)
            genes = recs[0].annotation.genes
            if len(genes) != 1:
                return False
            g = genes[0]
            want = next((vals[k_] for k_ in SYM if k_ in keys), None)
            return g.gene_symbol == want and g.gene_type is not None and g.gene_type.name == "ncRNA" and g.gene_id == "GID"

    return fn


def gff3_child_rows_fn():
    """io.gff3.parser on a top-level NON-gene feature with n child rows, each carrying its own qualifier key and a shared key with its own value: the parsed
    feature's qualifiers are the key-wise union over ALL rows (no row is lost, whatever n); and a gene with several transcripts, some with and some
    without transcript_id, no locus tag: every transcript gets its OWN id (None when it has none), in every record order"""

    def fn(n, order, idmask):
        n, order, idmask = concretize(n, order, idmask)
        with untraced():
            import logging
            import os
            import warnings

            from harness.c11 import _tmp_path
            from inscripta.biocantor.io.gff3.parser import parse_standard_gff3

            rows = ["##gff-version 3", "##sequence-region chr1 1 900",
                    "\t".join(["chr1", "t", "repeat_region", "11", str(10 + 10 * n), ".", "+", ".", "ID=feat1;Name=myfeat;top=t0"])]
            for i in range(n):
                rows.append("\t".join(["chr1", "t", "repeat_unit", str(11 + 10 * i), str(18 + 10 * i), ".", "+", ".", "ID=sub%d;Parent=feat1;own%d=v%d;shared=s%d" % (i, i, i, i)]))
            # a gene with three transcripts at 500..; transcript i has a transcript_id iff bit i of idmask
            perm = list(itertools.permutations(range(3)))[order]
            rows.append("\t".join(["chr1", "t", "gene", "501", "600", ".", "+", ".", "ID=gene1;gene_id=G1"]))
            for i in perm:
                tid = ";transcript_id=T%d" % i if idmask >> i & 1 else ""
                rows.append("\t".join(["chr1", "t", "mRNA", str(501 + 10 * i), str(560 + 10 * i), ".", "+", ".", "ID=tx%d;Parent=gene1%s" % (i, tid)]))
                rows.append("\t".join(["chr1", "t", "exon", str(501 + 10 * i), str(560 + 10 * i), ".", "+", ".", "ID=ex%d;Parent=tx%d" % (i, i)]))
            path = _tmp_path("c18rows")
            logging.disable(logging.CRITICAL)
            try:
                with warnings.catch_warnings():
                    warnings.simplefilter("ignore")
                    with open(path, "w") as fh:
                        fh.write("\n".join(rows) + "\n")
                    recs = list(parse_standard_gff3(path))
            finally:
                logging.disable(logging.NOTSET)
                if os.path.exists(path):
                    os.remove(path)
            ann = recs[0].annotation
            fcs = ann.feature_collections or []
            if len(fcs) != 1 or len(ann.genes) != 1:
                return False
            q = {}
            for f in fcs[0].feature_intervals:
                for k_, v in (f.qualifiers or {}).items():
                    q.setdefault(k_, set()).update(v)
            for k_, v in (fcs[0].qualifiers or {}).items():
                q.setdefault(k_, set()).update(v)
            ok = all("v%d" % i in q.get("own%d" % i, ()) for i in range(n)) and q.get("shared", set()) >= {"s%d" % i for i in range(n)}
            got = {t.exon_starts[0]: t.transcript_id for t in ann.genes[0].transcripts}
            want = {500 + 10 * i: ("T%d" % i if idmask >> i & 1 else None) for i in range(3)}
            return ok and got == want

    return fn


# keys the GFF3 parser turns into BioCantor identifiers (io.gff3.constants.BioCantorQualifiers) or that GFF3 reserves, and look-alikes that must survive
RESERVED_EXACT = ["gene_id", "gene_name", "gene_biotype", "transcript_id", "transcript_name", "transcript_biotype", "protein_id", "product", "feature_name",
                  "feature_id", "feature_type", "locus_tag", "ID", "Name", "Parent"]
FKEYS = RESERVED_EXACT + ["note", "gene_ids", "xgene_id", "my_product", "id", "name", "Alias", "Dbxref", "transcript", "Locus_Tag"]


def obligations(tier):
    out = []
    m = len(KEYS)
    for first in range(m):
        out.append(Obl("name_id_order_3_first%d" % first, name_id_fn(3), {"k%d" % i: int for i in range(3)},
                       _distinct_pre(3, m, first), budget=300, cost=5,
                       desc="extract_feature_name_id, 3 distinct keys in every insertion order, first key = %s: result is the value of the present "
                            "key of minimal documented rank; input unchanged" % KEYS[first], bounds="156 orderings",
                       examples=[{"k0": first, "k1": (first + 4) % m, "k2": (first + 9) % m}]))
    for n in (1, 2):
        out.append(Obl("name_id_order_%d" % n, name_id_fn(n), {"k%d" % i: int for i in range(n)}, _distinct_pre(n, m),
                       budget=600, cost=[0, 1, 4, 60][n],
                       desc="extract_feature_name_id on a dictionary with %d distinct keys in EVERY insertion order: result is the value of the "
                            "present key of minimal documented rank (case-insensitive exact match, look-alikes ignored, note fallback); input unchanged" % n,
                       bounds="all %d ordered selections of %d keys out of %d" % (len(list(itertools.permutations(range(m), n))), n, m),
                       examples=[{"k%d" % i: (i * 3) % m for i in range(n)}]))
    if tier == "thorough":
        for first in range(m):
            out.append(Obl("name_id_order_4_first%d" % first, name_id_fn(4), {"k%d" % i: int for i in range(4)},
                           _distinct_pre(4, m, first), budget=900, cost=60,
                           desc="as name_id_order, 4 keys, first key = %s" % KEYS[first], bounds="1716 orderings",
                           examples=[{"k0": first, "k1": (first + 1) % m, "k2": (first + 2) % m, "k3": (first + 3) % m}]))
    tm = len(TKEYS)
    for n in ((1, 2) if tier == "quick" else (1, 2, 3)):
        out.append(Obl("feature_types_%d" % n, types_fn(n), {"k%d" % i: int for i in range(n)}, _distinct_pre(n, tm), budget=600,
                       cost=[0, 1, 4, 40][n],
                       desc="extract_feature_types collects the values of every key containing _class/gbkey/_type (case-insensitive substring) and nothing else",
                       bounds="all ordered selections of %d keys out of %d" % (n, tm), examples=[{"k%d" % i: i for i in range(n)}]))
    out.append(Obl("merge_qualifiers", merge_fn(), {"i": int, "j": int},
                   lambda i, j: 0 <= i and i < len(DICTS) and 0 <= j and j < len(DICTS), budget=300, cost=3,
                   desc="merge_qualifiers is a key-wise set union with sorted list values; inputs unchanged and not aliased",
                   bounds="all %d ordered pairs of catalogue dictionaries" % (len(DICTS) ** 2), examples=[dict(i=2, j=4)]))
    for kind in ("feature", "transcript", "cds"):
        out.append(Obl("interval_merge_qualifiers_%s" % kind, interval_merge_fn(kind), {"i": int, "j": int},
                       lambda i, j: 0 <= i and i < len(QD) and 0 <= j and j < len(QD), budget=300, cost=3,
                       desc="%s._merge_qualifiers(parent qualifiers) / export_qualifiers(parent qualifiers) is the key-wise set union of the interval's own and the "
                            "parent's qualifiers (plus only the documented identifier keys on export); both operands unchanged and not aliased" % kind,
                       bounds="all %d ordered pairs of catalogue dictionaries (incl. none, empty, shared keys, case-different keys)" % (len(QD) ** 2),
                       examples=[dict(i=3, j=4), dict(i=0, j=7)]))
    out.append(Obl("gff3_child_rows_and_sibling_transcripts", gff3_child_rows_fn(), dict(n=int, order=int, idmask=int),
                   lambda n, order, idmask: 1 <= n and n <= 9 and 0 <= order and order <= 5 and 0 <= idmask and idmask <= 7, budget=900, cost=60,
                   desc="GFF3 text through the real parser: a non-gene feature with 1..9 child rows keeps the qualifiers of EVERY row (key-wise union); a gene with three "
                        "transcripts of which any subset has a transcript_id (no locus tag) gives every transcript its own id or None, in all 6 record orders",
                   bounds="9 row counts x 6 orders x 8 id patterns (closed by the solver), parsed by gffutils natively", examples=[dict(n=3, order=0, idmask=1), dict(n=5, order=3, idmask=5)]))
    out.append(Obl("gff3_gene_attribute_priority", gff3_gene_priority_fn(), dict(perm=int, mask=int, bswap=int, idfirst=int),
                   lambda perm, mask, bswap, idfirst: 0 <= perm and perm < 24 and 1 <= mask and mask <= 15 and 0 <= bswap and bswap <= 1 and 0 <= idfirst and idfirst <= 1
                   and (tier == "thorough" or (perm + mask) % 2 == 0), budget=900, cost=60,
                   desc="GFF3 gene row with any non-empty subset of gene_name / gene_symbol / gene / Name in any attribute order, gene_biotype and gene_type in either "
                        "order, gene_id before or after ID: the parsed gene's symbol, biotype and id are those of the highest-priority key present",
                   bounds="24 attribute orders x 15 subsets x 2 x 2%s (closed by the solver), parsed by parse_standard_gff3 (gffutils, native)" % (
                       "" if tier == "thorough" else ", half of them in the quick tier"), examples=[dict(perm=23, mask=15, bswap=1, idfirst=0), dict(perm=1, mask=9, bswap=0, idfirst=1)]))
    out.append(Obl("filter_and_sort_qualifiers_history", filter_history_fn(), dict(i=int, va=int, vb=int, swap=int),
                   lambda i, va, vb, swap: 0 <= i and i < len(RESERVED_EXACT) and 0 <= va and va < vb and vb <= 5 and 0 <= swap and swap <= 1, budget=600, cost=30,
                   desc="filter_and_sort_qualifiers on three dictionaries in a row in a freshly loaded parser module: a reserved key and a differently-cased look-alike "
                        "of it (lower / upper / title / capitalised / swapped case) each get their own verdict - exact reserved spellings dropped, every other "
                        "spelling kept - in either order", bounds="%d reserved keys x 15 spelling pairs x 2 orders (closed by the solver)" % len(RESERVED_EXACT),
                   examples=[dict(i=7, va=0, vb=3, swap=1), dict(i=0, va=0, vb=2, swap=0)]))
    nf = len(FKEYS)
    out.append(Obl("filter_and_sort_qualifiers", filter_sort_fn(), {"i": int, "j": int, "k": int},
                   lambda i, j, k: 0 <= i and i < j and j < k and k < nf if tier == "thorough" else (0 <= i and i < j and j < k and k < nf and (i + j + k) % 4 == 0),
                   budget=600, cost=20, desc="io.gff3.parser.filter_and_sort_qualifiers keeps exactly the keys that are not BioCantor identifier / reserved GFF3 keys "
                                             "(exact match: look-alikes and case variants survive), with sorted values; None when nothing is left; input unchanged",
                   bounds="every 3-subset of a %d-key catalogue%s" % (nf, "" if tier == "thorough" else " with (i+j+k) % 4 == 0"), examples=[dict(i=0, j=15, k=17)]))
    return out
