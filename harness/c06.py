"""C06 — genome, transcript and CDS coordinate systems of a transcript commute; UTR / intron partition."""
import harness.common  # noqa: F401
from inscripta.biocantor.exc import BioCantorException, InvalidPositionException
from inscripta.biocantor.gene.cds_frame import CDSFrame
from inscripta.biocantor.gene.transcript import TranscriptInterval

from harness.common import (
    AND, IFF, ITE, MINUS, NOT, OR, PLUS, SUM, EmptyLocation, blocks_of, layout_blocks, layout_params, layout_pre,
    member, mult, rel_of_pos, sname, total_len, walk_pos,
)
from vlib.obl import Obl

META = dict(
    functions=[
        "TranscriptInterval.__init__ / sequence_pos_to_transcript / transcript_pos_to_sequence / sequence_pos_to_cds / "
        "cds_pos_to_sequence / cds_pos_to_transcript / transcript_pos_to_cds / *_interval_to_* / get_5p_interval / get_3p_interval",
        "CDSInterval.sequence_pos_to_cds / cds_pos_to_sequence / sequence_pos_to_amino_acid / cds_interval_to_sequence / sequence_interval_to_cds",
        "AbstractFeatureInterval.sequence_pos_to_feature ... feature_interval_to_sequence; chromosome_gaps_location / chromosome_span",
        "FeatureInterval wrappers",
    ],
    bounds=dict(quick="<=2 exons (lengths>=1, introns>=1 bp), CDS = any transcript sub-window spanning any exon subset, both strands; "
                      "all coordinates and positions unbounded integers",
                thorough="<=3 exons, introns>=0 bp (adjacent exons), CDS spanning 1..3 exons; unbounded integers"),
    outside=">3 exons; chunk-relative variants (C07); CDS frames other than ZERO do not influence coordinate conversion",
    stubs=["S1", "S2", "S4 digest const", "S5 bins const", "S6", "S11"],
    assumptions=["block-walk oracle of C01 (harness/common.py)"],
)

REFUSE = (InvalidPositionException, ValueError)


def build(k, a, b, strand, kw, f0=0):
    """k exons; CDS = genomic-left-offset window [co, co+cl) starting in exon a and ending in exon b (driver-enumerated)"""
    ex = layout_blocks(k, kw)
    co, cl = kw["co"], kw["cl"]
    offs = []
    c = 0
    for s, e in ex:
        offs.append(c)
        c = c + (e - s)
    cds = []
    for i in range(a, b + 1):
        s, e = ex[i]
        cs = s + (co - offs[i]) if i == a else s
        ce = s + (co + cl - offs[i]) if i == b else e
        cds.append((cs, ce))
    tx = TranscriptInterval([x[0] for x in ex], [x[1] for x in ex], strand, [x[0] for x in cds], [x[1] for x in cds],
                            _frames(len(cds), strand, f0), guid=21)
    return ex, cds, tx


def _frames(n, strand, f0):
    """first block IN TRANSCRIPTION ORDER carries frame f0 (frames never influence coordinate conversion)"""
    fr = [CDSFrame.ZERO] * n
    fr[0 if strand is PLUS else n - 1] = CDSFrame(f0)
    return fr


def aa_index(k, a, b, strand, f0):
    def fn(**kw):
        ex, cds, tx = build(k, a, b, strand, kw, f0)
        p = kw["p"]
        try:
            aa = tx.cds.sequence_pos_to_amino_acid(p)
        except InvalidPositionException:
            return NOT(member(p, cds))
        c = rel_of_pos(cds, strand, p)
        return AND(member(p, cds), aa * 3 <= c, c < aa * 3 + 3, tx.sequence_pos_to_cds(p) == c)

    return fn


def shape_pre(k, a, b, min_gap=1):
    def pre(**kw):
        if not layout_pre(k, kw, min_len=1, min_gap=min_gap):
            return False
        co, cl = kw["co"], kw["cl"]
        offs = []
        c = 0
        for i in range(k):
            offs.append(c)
            c = c + kw["l%d" % i]
        if not (cl >= 1 and co >= 0 and co + cl <= c):
            return False
        # CDS starts inside exon a and ends inside exon b
        if not (offs[a] <= co and co < offs[a] + kw["l%d" % a]):
            return False
        if not (offs[b] < co + cl and co + cl <= offs[b] + kw["l%d" % b]):
            return False
        return True

    return pre


def _adopt_into_gene(tx, ex, strand, first):
    """the transcript as one of two isoforms of a gene whose aggregates (merged transcript / CDS / feature, primary transcript) are computed before the
    transcript is asked anything: aggregating must not touch the members"""
    from inscripta.biocantor.gene.gene import GeneInterval

    other = TranscriptInterval([ex[0][0] + 1], [ex[-1][1] + 5], strand, guid=22)
    gene = GeneInterval([tx, other] if first else [other, tx], guid=23)
    gene.get_merged_transcript()
    gene.get_merged_cds()
    gene.get_primary_transcript()
    return gene


def pos_commute(k, a, b, strand, in_gene=None):
    def fn(**kw):
        ex, cds, tx = build(k, a, b, strand, kw)
        if in_gene is not None:
            _adopt_into_gene(tx, ex, strand, in_gene)
        p = kw["p"]
        in_tx, in_cds = member(p, ex), member(p, cds)
        conds = []
        try:
            t = tx.sequence_pos_to_transcript(p)
        except InvalidPositionException:
            t = None
        try:
            c1 = tx.sequence_pos_to_cds(p)
        except InvalidPositionException:
            c1 = None
        if t is None:
            return AND(NOT(in_tx), c1 is None)
        conds += [in_tx, t == rel_of_pos(ex, strand, p), tx.transcript_pos_to_sequence(t) == p]
        try:
            c2 = tx.transcript_pos_to_cds(t)
        except InvalidPositionException:
            c2 = None
        if c1 is None or c2 is None:
            return AND(c1 is None, c2 is None, NOT(in_cds), *conds)
        conds += [in_cds, c1 == c2, c1 == rel_of_pos(cds, strand, p), tx.cds_pos_to_sequence(c1) == p,
                  tx.cds_pos_to_transcript(c1) == t, tx.cds.sequence_pos_to_amino_acid(p) * 3 <= c1,
                  c1 < tx.cds.sequence_pos_to_amino_acid(p) * 3 + 3]
        return AND(*conds)

    return fn


def rel_commute(k, a, b, strand):
    """relative positions as the symbolic inputs: transcript index r, CDS index c"""

    def fn(**kw):
        ex, cds, tx = build(k, a, b, strand, kw)
        r, c = kw["r"], kw["c"]
        n, m = total_len(ex), total_len(cds)
        conds = []
        try:
            g = tx.transcript_pos_to_sequence(r)
            conds += [0 <= r, r < n, g == walk_pos(ex, strand, r), tx.sequence_pos_to_transcript(g) == r]
            try:
                cc = tx.transcript_pos_to_cds(r)
                conds += [member(g, cds), tx.cds_pos_to_transcript(cc) == r]
            except InvalidPositionException:
                conds.append(NOT(member(g, cds)))
        except REFUSE:
            conds.append(NOT(AND(0 <= r, r < n)))
        try:
            g2 = tx.cds_pos_to_sequence(c)
            conds += [0 <= c, c < m, g2 == walk_pos(cds, strand, c), tx.sequence_pos_to_cds(g2) == c,
                      tx.transcript_pos_to_cds(tx.cds_pos_to_transcript(c)) == c]
        except REFUSE:
            conds.append(NOT(AND(0 <= c, c < m)))
        return AND(*conds)

    return fn


def utr_partition(k, a, b, strand):
    def fn(**kw):
        ex, cds, tx = build(k, a, b, strand, kw)
        p = kw["p"]
        n = total_len(ex)
        co, cl = kw["co"], kw["cl"]
        t0 = co if strand is PLUS else n - (co + cl)  # transcript index of the first CDS base
        five = tx.get_5p_interval()
        three = tx.get_3p_interval()
        F, T = blocks_of(five), blocks_of(three)
        t = rel_of_pos(ex, strand, p)
        in_ex = member(p, ex)
        conds = [
            mult(p, F) == ITE(AND(in_ex, t < t0), 1, 0),
            mult(p, T) == ITE(AND(in_ex, t >= t0 + cl), 1, 0),
            # pairwise disjoint and jointly covering the exons
            mult(p, F) + mult(p, cds) + mult(p, T) == ITE(in_ex, 1, 0),
            len(five) == t0,
            len(three) == n - t0 - cl,
        ]
        if F and len(five) != 0:
            conds.append(five.strand is strand)
        if T and len(three) != 0:
            conds.append(three.strand is strand)
        return AND(*conds)

    return fn


def introns_span(k, strand):
    def fn(**kw):
        ex = layout_blocks(k, kw)
        tx = TranscriptInterval([x[0] for x in ex], [x[1] for x in ex], strand, guid=21)
        p = kw["p"]
        gaps = tx.chromosome_gaps_location
        span = tx.chromosome_span
        G = blocks_of(gaps)
        in_span = AND(ex[0][0] <= p, p < ex[-1][1])
        return AND(mult(p, G) == ITE(AND(in_span, NOT(member(p, ex))), 1, 0), span.start == ex[0][0], span.end == ex[-1][1],
                   tx.start == ex[0][0], tx.end == ex[-1][1], len(tx) == total_len(ex))

    return fn


def interval_forms(k, a, b, strand, which, rs=PLUS):
    """interval conversions agree with the point forms, for either relative strand"""

    def fn(**kw):
        ex, cds, tx = build(k, a, b, strand, kw)
        x, y, i = kw["x"], kw["y"], kw["i"]
        if which == "tx2seq":
            src, conv = ex, tx.transcript_interval_to_sequence
        else:
            src, conv = cds, tx.cds_interval_to_sequence
        n = total_len(src)
        valid = AND(0 <= x, x < y, y <= n)
        try:
            res = conv(x, y, rs)
        except REFUSE:
            return NOT(valid)
        if not valid:
            return x == y  # empty request answered
        rb = blocks_of(res)
        exp_strand = strand if rs is PLUS else strand.reverse()
        # i-th base of the result (5'->3' on ITS strand) = base x+i of the source walk (relative plus) / base y-1-i (relative minus)
        j = (x + i) if rs is PLUS else (y - 1 - i)
        conds = [res.strand is exp_strand, len(res) == y - x,
                 OR(NOT(AND(0 <= i, i < y - x)), walk_pos(rb, exp_strand, i) == walk_pos(src, strand, j))]
        # back-conversion of the chromosome span covers [x, y)
        back = tx.sequence_interval_to_transcript(res.start, res.end, exp_strand) if which == "tx2seq" else \
            tx.sequence_interval_to_cds(res.start, res.end, exp_strand)
        bb = blocks_of(back)
        conds.append(AND(bb[0][0] == x, bb[-1][1] == y, back.strand is rs))
        return AND(*conds)

    return fn


def noncoding(k, strand):
    from inscripta.biocantor.exc import NoncodingTranscriptError

    def fn(**kw):
        ex = layout_blocks(k, kw)
        tx = TranscriptInterval([x[0] for x in ex], [x[1] for x in ex], strand, guid=21)
        n = 0
        for f in (lambda: tx.get_5p_interval(), lambda: tx.get_3p_interval(), lambda: tx.sequence_pos_to_cds(ex[0][0]),
                  lambda: tx.cds_pos_to_transcript(0), lambda: tx.transcript_pos_to_cds(0)):
            try:
                f()
            except NoncodingTranscriptError:
                n += 1
        return n == 5 and not tx.is_coding

    return fn


def _shapes(k):
    return [(a, b) for a in range(k) for b in range(a, k)]


def _example(k, a, b, **extra):
    e = {"s0": 10}
    for i in range(k):
        e["l%d" % i] = 6
    for i in range(1, k):
        e["g%d" % i] = 4
    e["co"] = 6 * a + 2
    e["cl"] = 6 * b + 5 - e["co"]
    e.update(extra)
    return e


def obligations(tier):
    out = []
    quick = tier == "quick"
    ks = [1, 2] if quick else [1, 2, 3]
    for strand in (PLUS, MINUS):
        sn = sname(strand)
        for k in ks:
            for a, b in _shapes(k):
                tag = "k%d_cds%d-%d_%s" % (k, a, b, sn)
                gaps = [1] if quick else [1, 0]
                for mg in gaps:
                    if mg == 0 and k == 1:
                        continue
                    tg = tag + ("" if mg == 1 else "_adjacent")
                    pre = shape_pre(k, a, b, min_gap=mg)
                    bnd = "%d exons (len>=1, introns>=%d), CDS from exon %d to exon %d, unbounded ints" % (k, mg, a, b)
                    cost = [0, 3, 12, 50][k]
                    base = dict(layout_params(k))
                    base.update(co=int, cl=int)
                    out.append(Obl("pos_commute_" + tg, pos_commute(k, a, b, strand), dict(base, p=int), pre,
                                   budget=cost * 8 + 60, cost=cost,
                                   desc="chr->CDS == chr->tx->CDS; every conversion inverted by its counterpart; positions outside rejected; aa == cds//3",
                                   bounds=bnd, examples=[_example(k, a, b, p=13), _example(k, a, b, p=0)]))
                    if k == 2 and mg == 1:
                        for first in (True, False):
                            out.append(Obl("pos_commute_in_gene_%s_%s" % (tg, "first" if first else "second"), pos_commute(k, a, b, strand, in_gene=first),
                                           dict(base, p=int), pre, budget=cost * 8 + 120, cost=cost * 1.5,
                                           desc="the same conversions on a transcript that is the %s of two isoforms of a gene, after the gene's merged transcript / "
                                                "merged CDS / primary transcript were computed (aggregates must leave their members alone)" % ("first" if first else "second"),
                                           bounds=bnd, examples=[_example(k, a, b, p=13), _example(k, a, b, p=0)]))
                    out.append(Obl("rel_commute_" + tg, rel_commute(k, a, b, strand), dict(base, r=int, c=int), pre,
                                   budget=cost * 10 + 60, cost=cost * 1.5,
                                   desc="transcript/CDS relative positions map to the block walk and back; out-of-range indexes rejected",
                                   bounds=bnd, examples=[_example(k, a, b, r=3, c=1), _example(k, a, b, r=-1, c=99)]))
                    out.append(Obl("utr_partition_" + tg, utr_partition(k, a, b, strand), dict(base, p=int), pre,
                                   budget=cost * 10 + 60, cost=cost * 1.5,
                                   desc="5'UTR, CDS, 3'UTR are disjoint, ordered 5'->3', jointly cover the exons; an absent UTR is an empty value, not an error",
                                   bounds=bnd, examples=[_example(k, a, b, p=11)]))
                    if mg == 1:
                        for f0 in (1, 2):
                            out.append(Obl("aa_index_%s_f%d" % (tg, f0), aa_index(k, a, b, strand, f0), dict(base, p=int), pre,
                                           budget=cost * 6 + 60, cost=cost,
                                           desc="amino-acid index == CDS position // 3 also when the CDS starts in frame %d" % f0,
                                           bounds=bnd, examples=[_example(k, a, b, p=13)]))
                        for which in ("tx2seq", "cds2seq"):
                            out.append(Obl("interval_%s_%s" % (which, tg), interval_forms(k, a, b, strand, which),
                                           dict(base, x=int, y=int, i=int), pre, budget=cost * 12 + 60, cost=cost * 2,
                                           desc="interval form (%s) equals the point-wise walk and converts back to [x,y)" % which,
                                           bounds=bnd, examples=[_example(k, a, b, x=0, y=2, i=1)]))
                            out.append(Obl("interval_%s_relminus_%s" % (which, tg), interval_forms(k, a, b, strand, which, MINUS),
                                           dict(base, x=int, y=int, i=int), pre, budget=cost * 12 + 60, cost=cost * 2,
                                           desc="interval form (%s) with relative strand MINUS: result on the opposite strand, i-th base = base y-1-i of the "
                                                "point-wise walk (whole-length intervals included), converts back to [x,y) on the relative minus strand" % which,
                                           bounds=bnd, examples=[_example(k, a, b, x=0, y=2, i=1)]))
            if k == ks[-1]:
                # many exons (size-dependent code paths start at some exon count): 17 exons, CDS from exon 3 to exon 15
                K, A, B = 17, 2, 14
                pre17 = shape_pre(K, A, B, min_gap=1)
                base17 = dict(layout_params(K))
                base17.update(co=int, cl=int)
                e17 = _example(K, A, B, p=31)
                for nm, f, extra, ex_extra in (("pos_commute", pos_commute, dict(p=int), dict(p=31)), ("rel_commute", rel_commute, dict(r=int, c=int), dict(r=40, c=7)),
                                               ("utr_partition", utr_partition, dict(p=int), dict(p=31))):
                    if quick and ((nm == "utr_partition" and strand is MINUS) or nm == "rel_commute"):
                        continue  # rel_commute with 17 exons: ~1000 paths, thorough tier
                    out.append(Obl("%s_k17_cds2-14_%s" % (nm, sn), f(K, A, B, strand), dict(base17, **extra), pre17, budget=3600 if nm == "rel_commute" else 900,
                                   cost=900 if nm == "rel_commute" else 90,
                                   desc="17-exon transcript, CDS from exon 3 to exon 15: " + {"pos_commute": "chr->CDS == chr->tx->CDS, conversions inverted, outside rejected",
                                                                                             "rel_commute": "relative positions map to the block walk and back",
                                                                                             "utr_partition": "5'UTR / CDS / 3'UTR partition the exons in order"}[nm],
                                   bounds="17 exons (len>=1, introns>=1), unbounded ints", examples=[_example(K, A, B, **ex_extra)]))
            params = dict(layout_params(k))
            params["p"] = int
            out.append(Obl("introns_span_k%d_%s" % (k, sn), introns_span(k, strand), params,
                           (lambda k: (lambda **kw: layout_pre(k, kw, min_len=1, min_gap=0)))(k), budget=120, cost=3 * k,
                           desc="introns == span minus exons; span/start/end/len are the stated functions of the exons",
                           bounds="%d exons, introns>=0" % k, examples=[dict({"s0": 3, "p": 9}, **{"l%d" % i: 3 for i in range(k)}, **{"g%d" % i: 2 for i in range(1, k)})]))
            p2 = dict(layout_params(k))
            out.append(Obl("noncoding_k%d_%s" % (k, sn), noncoding(k, strand), p2,
                           (lambda k: (lambda **kw: layout_pre(k, kw, min_len=1, min_gap=1)))(k), budget=60, cost=2,
                           desc="CDS/UTR requests on a non-coding transcript raise NoncodingTranscriptError",
                           bounds="%d exons" % k, examples=[dict({"s0": 3}, **{"l%d" % i: 3 for i in range(k)}, **{"g%d" % i: 2 for i in range(1, k)})]))
    return out
