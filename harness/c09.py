"""C09 — collection queries return exactly the specified members, self-consistently."""
import itertools

import harness.common  # noqa: F401
from inscripta.biocantor.exc import BioCantorException, InvalidQueryError
from inscripta.biocantor.gene.cds_frame import CDSFrame
from inscripta.biocantor.gene.collections import AnnotationCollection
from inscripta.biocantor.gene.feature import FeatureInterval, FeatureIntervalCollection
from inscripta.biocantor.gene.gene import GeneInterval
from inscripta.biocantor.gene.transcript import TranscriptInterval
from inscripta.biocantor.gene.variants import VariantInterval, VariantIntervalCollection

from harness.common import AND, DEQ, IFF, ITE, MINUS, NOT, OR, PLUS, GENOME40, chrom_parent, chunk_parent
from vlib.obl import Obl, split_cubes
from vlib.sym import MAX, MIN, concretize, untraced

META = dict(
    functions=["AnnotationCollection.query_by_position / _query_by_position (bin pre-filter, strict/relaxed) / _build_new_collection_from_query / "
               "_subset_parent / _return_collection_for_id_queries / query_by_guids / query_by_interval_guids / query_by_transcript_interval_guids / "
               "query_by_feature_interval_guids / query_by_feature_identifiers", "GeneInterval.query_by_guids", "FeatureIntervalCollection.query_by_guids",
               "Location.contains / has_overlap (full_span) as used by the query"],
    bounds=dict(quick="collections of 2 members (gene+gene, gene+feature collection, gene+variant collection), 1-2 grandchildren each, all 8 flag "
                      "combinations, unbounded symbolic coordinates, collection bounds and query range; every subset of the requested identifiers",
                thorough="3 members incl. a 2-transcript gene; sequence legs with more windows"),
    outside=">3 children; the cgranges code path (not installed); the real bin arithmetic (C16 proves the contract the stub assumes; its failure "
            "region qe >= 2^29 is reproduced here by a realised witness with the real bins)",
    stubs=["S1", "S2", "S3", "S4", "S5 bins CONTRACT stub (vlib/binstub.py)", "S6", "S11", "S12"],
    assumptions=["bins contract (proved for the real bins() in C16 below 2^29): an interval overlapping/contained in a query has its assigned bin in the query's bin set"],
)
STUBS = dict(bins="contract")


def _members(kind, kw, coding=(True, False), par=None, shared=False):
    """two members; member 0 at (s0,l0), member 1 at (s1,l1). shared: gene and feature collection carry the SAME locus tag (an identifier shared across
    member types)"""
    out = []
    for i in range(2):
        s, l = kw["s%d" % i], kw["l%d" % i]
        k = kind[i]
        if k == "gene":
            if coding[i]:
                tx = TranscriptInterval([s], [s + l], PLUS, [s], [s + l], [CDSFrame.ZERO], guid=600 + i, transcript_id="tx%d" % i,
                                        parent_or_seq_chunk_parent=par)
            else:
                tx = TranscriptInterval([s], [s + l], MINUS, guid=600 + i, transcript_id="tx%d" % i, parent_or_seq_chunk_parent=par)
            out.append(GeneInterval([tx], guid=700 + i, gene_id="gene%d" % i, gene_symbol="sym%d" % i, locus_tag="shared_lt" if shared else "lt%d" % i,
                                    parent_or_seq_chunk_parent=par))
        elif k == "fc":
            f = FeatureInterval([s], [s + l], PLUS, guid=600 + i, feature_name="feat%d" % i, parent_or_seq_chunk_parent=par)
            out.append(FeatureIntervalCollection([f], guid=700 + i, feature_collection_id="fc%d" % i, feature_collection_name="fcn%d" % i,
                                                 locus_tag="shared_lt" if shared else None, parent_or_seq_chunk_parent=par))
        else:
            v = VariantInterval(s, s + l, "A" * 1, "SNV", guid=600 + i, parent_or_seq_chunk_parent=par)
            out.append(VariantIntervalCollection([v], guid=700 + i, variant_collection_id="vc%d" % i, parent_or_seq_chunk_parent=par))
    return out


def _collection(kind, members, lo, hi, par=None):
    return AnnotationCollection(genes=[m for m, k in zip(members, kind) if k == "gene"],
                                feature_collections=[m for m, k in zip(members, kind) if k == "fc"],
                                variant_collections=[m for m, k in zip(members, kind) if k == "vc"],
                                name="coll", sequence_name="chr1", start=lo, end=hi, parent_or_seq_chunk_parent=par)


def position_fn(kind, coding, coding_only, within, expand):
    def fn(**kw):
        members = _members(kind, kw, coding)
        lo, hi, qs, qe = kw["lo"], kw["hi"], kw["qs"], kw["qe"]
        coll = _collection(kind, members, lo, hi)
        valid = AND(qs >= 0, qs < qe, lo <= qs, qe <= hi)
        try:
            res = coll.query_by_position(qs, qe, coding_only=coding_only, completely_within=within, expand_location_to_children=expand)
        except InvalidQueryError:
            return NOT(valid)
        if not valid:
            return False
        got = {c.guid: c for c in res.iter_children()}
        conds = []
        want_any = []
        for i, m in enumerate(members):
            s, e = kw["s%d" % i], kw["s%d" % i] + kw["l%d" % i]
            is_coding = kind[i] == "gene" and coding[i]
            passes = AND(qs <= s, e <= qe) if within else AND(s < qe, qs < e)
            if coding_only and not is_coding:
                passes = False
            present = (700 + i) in got
            conds.append(IFF(present, passes))
            want_any.append((passes, s, e))
            if present:
                c = got[700 + i]
                conds += [c.start == s, c.end == e, type(c) is type(m), DEQ(c.to_dict(), m.to_dict()),
                          [g.guid for g in c.iter_children()] == [600 + i]]
        # result bounds
        if expand and not within:
            elo = MIN([qs] + [ITE(p, s, qs) for p, s, e in want_any])
            ehi = MAX([qe] + [ITE(p, e, qe) for p, s, e in want_any])
            conds += [res.start == elo, res.end == ehi]
        else:
            conds += [res.start == qs, res.end == qe]
        conds.append(len(got) == len(list(res.iter_children())))
        conds.append(coll.start == lo)
        return AND(*conds)

    return fn


def position_pre(vc=False, vc0=False, **kw):
    for i in range(2):
        if not (kw["s%d" % i] >= 0 and kw["l%d" % i] >= 1):
            return False
    if vc and not kw["l1"] == 1:
        return False  # variants are single-base SNVs (length-changing variants re-model their neighbours: C13)
    if vc0 and not (kw["l0"] == 1 and kw["s0"] != kw["s1"]):
        return False
    lo, hi = kw["lo"], kw["hi"]
    if not (0 <= lo and lo < hi):
        return False
    for i in range(2):
        if not (lo <= kw["s%d" % i] and kw["s%d" % i] + kw["l%d" % i] <= hi):
            return False
    return True


def many_members_fn():
    """a collection with MANY members (size-dependent pre-selection would start at some member count): short genes tiled along the sequence plus a long gene and
    a long feature collection that start upstream and reach across many of them; strict and relaxed queries anywhere return exactly the members whose span
    lies within / overlaps the query. Realised leg, expectation by brute force over the spans."""

    def fn(n, h, span, q, ab, within, sc=1, co=0):
        n, h, span, q, ab, within, sc, co = concretize(n, h, span, q, ab, within, sc, co)
        with untraced():
            spans, coding = {}, {}
            genes, fcs = [], []
            T = 100 * sc  # tile size: with sc = 3000 the members spread over many 128 kb bins and the long members cross bin boundaries
            for i in range(n):
                s, e = T * i + 10 * sc, T * i + 40 * sc
                if i % 3 == 1:   # every third short gene is coding
                    tx = TranscriptInterval([s], [e], PLUS, [s], [s + 9], [CDSFrame.ZERO], guid=10000 + i)
                else:
                    tx = TranscriptInterval([s], [e], PLUS, guid=10000 + i)
                genes.append(GeneInterval([tx], guid=20000 + i, gene_id="g%d" % i))
                spans[20000 + i] = (s, e)
                coding[20000 + i] = i % 3 == 1
            hs, he = T * h + 50 * sc, T * (h + span) + 20 * sc
            genes.append(GeneInterval([TranscriptInterval([hs], [he], PLUS, [hs], [hs + 30], [CDSFrame.ZERO], guid=30000)], guid=30001, gene_id="host"))
            spans[30001] = (hs, he)
            coding[30001] = True
            fcs.append(FeatureIntervalCollection([FeatureInterval([hs + 1], [he + 1], PLUS, guid=30002)], guid=30003, feature_collection_id="hostfc"))
            spans[30003] = (hs + 1, he + 1)
            coding[30003] = False
            hi = T * (n + 70)
            coll = AnnotationCollection(genes=genes, feature_collections=fcs, sequence_name="chr1", start=0, end=hi)
            a, b = [(0, 100), (45, 55), (15, 35), (5, 700)][ab]
            qs, qe = T * q + a * sc, T * q + b * sc
            res = coll.query_by_position(qs, qe, completely_within=bool(within), coding_only=bool(co))
            got = sorted(c.guid for c in res.iter_children())
            want = sorted(g for g, (s, e) in spans.items() if ((qs <= s and e <= qe) if within else (s < qe and qs < e)) and (coding[g] or not co))
            return got == want

    return fn


def default_bounds_fn(kind):
    """start/end omitted => the whole collection"""

    def fn(**kw):
        members = _members(kind, kw)
        coll = _collection(kind, members, kw["lo"], kw["hi"])
        res = coll.query_by_position()
        got = sorted(c.guid for c in res.iter_children())
        half = coll.query_by_position(start=kw["qs"], completely_within=False)
        exp_half = [700 + i for i in range(2) if bool(kw["qs"] < kw["s%d" % i] + kw["l%d" % i])]
        return AND(got == [700, 701], res.start == kw["lo"], res.end == kw["hi"], sorted(c.guid for c in half.iter_children()) == exp_half,
                   half.end == kw["hi"])

    return fn


def guid_fn(kind, which, req, shared=False):
    """req: tuple of requested ids (concrete); coordinates symbolic"""

    def fn(**kw):
        members = _members(kind, kw, shared=shared)
        coll = _collection(kind, members, kw["lo"], kw["hi"])
        if which == "guids":
            res = coll.query_by_guids(list(req))
            exp = [g for g in (700, 701) if g in req]
        elif which == "interval_guids":
            res = coll.query_by_interval_guids(list(req))
            exp = [700 + i for i in range(2) if (600 + i) in req]
        elif which == "transcript_guids":
            res = coll.query_by_transcript_interval_guids(list(req))
            exp = [700 + i for i in range(2) if (600 + i) in req and kind[i] == "gene"]
        elif which == "feature_guids":
            res = coll.query_by_feature_interval_guids(list(req))
            exp = [700 + i for i in range(2) if (600 + i) in req and kind[i] == "fc"]
        else:
            res = coll.query_by_feature_identifiers(list(req))
            idents = [{"gene": {"gene%d" % i, "sym%d" % i, "shared_lt" if shared else "lt%d" % i}, "fc": {"fc%d" % i, "fcn%d" % i} | ({"shared_lt"} if shared else set()),
                       "vc": {"vc%d" % i}}[kind[i]] for i in range(2)]
            exp = [700 + i for i in range(2) if idents[i] & set(req)]
        got = [c.guid for c in res.iter_children()]
        conds = [sorted(got) == sorted(exp), len(got) == len(set(got)), res.start == kw["lo"], res.end == kw["hi"]]
        for c in res.iter_children():
            i = c.guid - 700
            conds += [c.start == kw["s%d" % i], c.end == kw["s%d" % i] + kw["l%d" % i], [g.guid for g in c.iter_children()] == [600 + i]]
        return AND(*conds)

    return fn


def interval_guid_subset_fn():
    """interval-GUID queries keep only the requested grandchildren inside their parent"""

    def fn(s0, l0, g, l1, lo, hi, r0, r1, r2):
        t0 = TranscriptInterval([s0], [s0 + l0], PLUS, guid=600)
        t1 = TranscriptInterval([s0 + l0 + g], [s0 + l0 + g + l1], PLUS, guid=601)
        gene = GeneInterval([t0, t1], guid=700, gene_id="g")
        f0 = FeatureInterval([s0], [s0 + l0], PLUS, guid=602)
        f1 = FeatureInterval([s0 + l0 + g], [s0 + l0 + g + l1], MINUS, guid=603)
        fc = FeatureIntervalCollection([f0, f1], guid=701)
        coll = AnnotationCollection(genes=[gene], feature_collections=[fc], start=lo, end=hi)
        req = [x for x, keep in ((600, r0), (602, r1), (603, r2)) if keep]
        res = coll.query_by_interval_guids(req)
        got = {c.guid: sorted(g.guid for g in c.iter_children()) for c in res.iter_children()}
        exp = {}
        if r0:
            exp[700] = [600]
        if r1 or r2:
            exp[701] = [x for x, keep in ((602, r1), (603, r2)) if keep]
        children = list(res.iter_children())
        return AND(got == exp, len(children) == len(exp), res.start == lo, res.end == hi)

    return fn


# ------------------------------------------------------------------ realised legs with the REAL bins and real sequence
SEQ_LAYOUTS = [dict(s0=2, l0=5, s1=12, l1=4), dict(s0=0, l0=3, s1=3, l1=6), dict(s0=6, l0=6, s1=10, l1=8)]


GENOME40_B = GENOME40[::-1]  # a different 40-nt sequence given the same name


def sequence_fn(strict):
    def fn(qs, qe):
        qs, qe = concretize(qs, qe)
        with untraced():
            # every layout on two DIFFERENT genomes that carry the same chromosome name, one after the other in the same process: each result's
            # sequences come from its own source (nothing is shared between collections through a name- or bounds-keyed cache)
            for kw in SEQ_LAYOUTS:
                for genome in (GENOME40, GENOME40_B, GENOME40):
                    if not one(kw, qs, qe, genome):
                        return False
            return True

    def one(kw, qs, qe, GENOME40):
        if True:
            par = chrom_parent(GENOME40)
            members = _members(("gene", "fc"), kw, par=chrom_parent(GENOME40))
            coll = AnnotationCollection(genes=[members[0]], feature_collections=[members[1]], sequence_name="chr1", parent_or_seq_chunk_parent=par)
            res = coll.query_by_position(qs, qe, completely_within=strict)
            ok = (res.start, res.end) == (qs, qe)
            for c in res.iter_children():
                i = c.guid - 700
                s, e = kw["s%d" % i], kw["s%d" % i] + kw["l%d" % i]
                child = next(iter(c.iter_children()))
                lo, hi = max(s, qs), min(e, qe)
                want = GENOME40[lo:hi]
                if child.strand is MINUS:
                    comp = {"A": "T", "C": "G", "G": "C", "T": "A"}
                    want = "".join(comp[x] for x in reversed(want))
                got = str(child.get_spliced_sequence()) if not child.chunk_relative_location.is_empty else ""
                ok = ok and got == want and (child.start, child.end) == (s, e)
            # querying the result again with the same range is idempotent
            again = res.query_by_position(qs, qe, completely_within=strict)
            ok = ok and [c.guid for c in again.iter_children()] == [c.guid for c in res.iter_children()]
            return ok

    return fn


def real_bins_fn():
    """strict range query with the REAL bins at collection sizes around 2^29"""

    def fn(k):
        k = concretize(k)
        with untraced():
            qe = 2 ** 29 - 2 + k
            g = GeneInterval([TranscriptInterval([5], [10], PLUS, guid=600)], guid=700)
            f = FeatureIntervalCollection([FeatureInterval([131070], [131080], PLUS, guid=601)], guid=701)
            coll = AnnotationCollection(genes=[g], feature_collections=[f], start=0, end=qe + 10)
            res = coll.query_by_position(1, qe, completely_within=True)
            return sorted(c.guid for c in res.iter_children()) == [700, 701]

    return fn


def chunk_query_fn(symbolic):
    """collection built on a sequence chunk: strict/relaxed queries in chromosome coordinates"""

    def body(w, s0, l0, s1, l1, qs, qe):
        par = lambda: chunk_parent(w, 24, seq=(GENOME40 * 2)[:24])  # noqa: E731
        kw = dict(s0=s0, l0=l0, s1=s1, l1=l1)
        members = _members(("gene", "fc"), kw, par=par())
        coll = AnnotationCollection(genes=[members[0]], feature_collections=[members[1]], sequence_name="chr1", parent_or_seq_chunk_parent=par())
        conds = [coll.start == w, coll.end == w + 24]
        for within in (True, False):
            res = coll.query_by_position(qs, qe, completely_within=within)
            got = sorted(c.guid for c in res.iter_children())
            for i in range(2):
                s, e = kw["s%d" % i], kw["s%d" % i] + kw["l%d" % i]
                passes = AND(qs <= s, e <= qe) if within else AND(s < qe, qs < e)
                conds.append(IFF((700 + i) in got, passes))
            conds += [res.start == qs, res.end == qe]
        return AND(*conds)

    def fn(w, s0, l0, s1, l1, qs, qe):
        if symbolic:
            return body(w, s0, l0, s1, l1, qs, qe)
        w, s0, l0, s1, l1, qs, qe = concretize(w, s0, l0, s1, l1, qs, qe)
        with untraced():
            return bool(body(w, s0, l0, s1, l1, qs, qe))

    return fn


def obligations(tier):
    out = []
    quick = tier == "quick"
    base = dict(s0=int, l0=int, s1=int, l1=int, lo=int, hi=int, qs=int, qe=int)
    ex = dict(s0=12, l0=8, s1=30, l1=5, lo=2, hi=60, qs=10, qe=40)
    kinds = [("gene", "gene"), ("gene", "fc"), ("gene", "vc"), ("vc", "vc")]
    for kind in kinds:
        for coding_only, within, expand in itertools.product((False, True), repeat=3):
            if quick and kind != ("gene", "fc") and (expand or (coding_only and not within)):
                continue
            coding = (True, False)
            tag = "%s_%s_co%d_within%d_expand%d" % (kind[0], kind[1], coding_only, within, expand)
            out.append(Obl("position_" + tag, position_fn(kind, coding, coding_only, within, expand), dict(base),
                           (lambda vc, vc0: (lambda **kw: position_pre(vc=vc, vc0=vc0, **kw)))(kind[1] == "vc", kind[0] == "vc"), budget=900, cost=90,
                           desc="query_by_position: member returned <=> (strict: inside; relaxed: overlapping) and coding filter, regardless of the bin "
                                "pre-filter (contract stub); result bounds = query (or expanded to members); members keep coordinates, dictionary form and "
                                "child guids; invalid ranges => InvalidQueryError",
                           bounds="2 members (%s, %s), unbounded symbolic coordinates/bounds/query" % kind,
                           examples=[dict(e, l1=1, **({"l0": 1} if kind[0] == "vc" else {})) if kind[1] == "vc" else e for e in (ex, dict(ex, qs=13), dict(ex, qs=0, qe=70))]))
        # the same obligations against the EXACT bin semantics (bins() translated to z3 terms from source): no contract assumed, counterexamples
        # replay with the real bins
        for coding_only, within, expand in ((False, True, False), (False, False, False)):
            if (kind != ("gene", "fc") and quick) or kind[0] == "vc":
                continue
            tag = "%s_%s_co%d_within%d_expand%d" % (kind[0], kind[1], coding_only, within, expand)
            o = Obl("position_smtbins_" + tag, position_fn(kind, (True, False), coding_only, within, expand), dict(base),
                    (lambda vc: (lambda **kw: position_pre(vc=vc, **kw)))(kind[1] == "vc"), budget=900, cost=120, stubs=dict(bins="smt"),
                    desc="query_by_position against the exact semantics of the real bins() (z3 terms generated from its source): member returned <=> "
                         "(strict: inside; relaxed: overlapping), for ALL integer coordinates including those in different 128 kb / 1 Mb ... bins",
                    bounds="2 members (%s, %s), unbounded symbolic coordinates/bounds/query" % kind,
                    examples=[dict(e_, l1=1) if kind[1] == "vc" else e_ for e_ in (ex, dict(ex, s1=131080, hi=400000, qe=131090), dict(ex, s0=30, l0=5, s1=12, l1=8), dict(ex, qs=14))])
            if within:
                out.extend(split_cubes(o, {"m0first": lambda **kw: kw["s0"] < kw["s1"],
                                           "qs_le_both": lambda **kw: kw["qs"] <= kw["s0"] and kw["qs"] <= kw["s1"],
                                           "qe_ge_both": lambda **kw: kw["qe"] >= kw["s0"] + kw["l0"] and kw["qe"] >= kw["s1"] + kw["l1"]}))
            else:
                out.append(o)
        if (quick and kind != ("gene", "fc")) or kind[0] == "vc":
            continue
        out.append(Obl("position_defaults_%s_%s" % kind, default_bounds_fn(kind), dict(s0=int, l0=int, s1=int, l1=int, lo=int, hi=int, qs=int),
                       (lambda vc: (lambda **kw: position_pre(vc=vc, qe=0, **kw) and kw["lo"] <= kw["qs"] and kw["qs"] < kw["hi"] and kw["qs"] >= 0))(kind[1] == "vc"),
                       budget=600, cost=60,
                       desc="omitted start/end default to the collection bounds", bounds="2 members, unbounded symbolic",
                       examples=[dict(s0=12, l0=8, s1=30, l1=(1 if kind[1] == "vc" else 5), lo=2, hi=60, qs=25)]))
    gbase = dict(s0=int, l0=int, s1=int, l1=int, lo=int, hi=int)
    gex = dict(s0=12, l0=8, s1=30, l1=5, lo=2, hi=60)

    def gpre_for(kind):
        return lambda **kw: position_pre(vc=(kind[1] == "vc"), qs=0, qe=0, **kw)

    reqs = {"guids": [(), (700,), (701,), (700, 701), (999,), (701, 700, 999)],
            "interval_guids": [(), (600,), (601,), (600, 601), (999, 601)],
            "transcript_guids": [(600,), (601,), (600, 601)],
            "feature_guids": [(600,), (601,), (600, 601)],
            "identifiers": [("gene0",), ("sym0", "fcn1"), ("fc1",), ("nosuch",), ("lt0", "gene0"), ("vc1",)]}
    for kind in ([("gene", "fc")] if quick else kinds):
        for which, rl in reqs.items():
            for req in rl:
                out.append(Obl("ids_%s_%s_%s_%s" % (which, kind[0], kind[1], "-".join(map(str, req)) or "none"), guid_fn(kind, which, req), dict(gbase),
                               gpre_for(kind), budget=400, cost=25,
                               desc="%s query returns exactly the matching members (no duplicates), with unchanged coordinates and children, bounds = collection bounds" % which,
                               bounds="2 members, requested ids %s, unbounded symbolic coordinates" % (req,),
                               examples=[dict(gex, l1=1) if kind[1] == "vc" else gex]))
    def mixed_gene_fn(flag_noncoding, order):
        """a gene with a coding and a non-coding isoform (the non-coding one optionally flagged primary, in either list order) IS coding: it passes the
        coding_only filter of position queries"""

        def fn(s0, l0, s1, l1, lo, hi, qs, qe, within):
            nc = TranscriptInterval([s0], [s0 + l0], MINUS, guid=600, is_primary_tx=flag_noncoding)
            cd = TranscriptInterval([s1], [s1 + l1], PLUS, [s1], [s1 + l1], [CDSFrame.ZERO], guid=601)
            gene = GeneInterval([nc, cd] if order == 0 else [cd, nc], guid=700)
            coll = AnnotationCollection(genes=[gene], sequence_name="chr1", start=lo, end=hi)
            res = coll.query_by_position(qs, qe, coding_only=True, completely_within=within)
            gs, ge = MIN([s0, s1]), MAX([s0 + l0, s1 + l1])
            passes = AND(qs <= gs, ge <= qe) if within else AND(gs < qe, qs < ge)
            got = [c.guid for c in res.iter_children()]
            return AND(IFF(700 in got, passes), gene.is_coding)

        return fn

    for flag in (False, True):
        for order in (0, 1):
            if quick and not flag:
                continue
            out.append(Obl("coding_only_mixed_gene_flag%d_order%d" % (flag, order), mixed_gene_fn(flag, order),
                           dict(s0=int, l0=int, s1=int, l1=int, lo=int, hi=int, qs=int, qe=int, within=bool),
                           lambda s0, l0, s1, l1, lo, hi, qs, qe, within: s0 >= 0 and l0 >= 1 and s1 >= 0 and l1 >= 1 and 0 <= lo and lo <= s0 and lo <= s1
                           and s0 + l0 <= hi and s1 + l1 <= hi and lo <= qs and qs < qe and qe <= hi, budget=600, cost=60,
                           desc="coding_only position query on a gene with one coding and one non-coding isoform%s: the gene is coding and is returned exactly when "
                                "its span passes the range test" % (" (the non-coding isoform flagged primary)" if flag else ""),
                           bounds="1 gene, 2 isoforms, unbounded symbolic coordinates/bounds/query, both modes", examples=[dict(s0=12, l0=8, s1=30, l1=6, lo=2, hi=60, qs=10, qe=40, within=True)]))
    for req in (("shared_lt",), ("shared_lt", "nosuch"), ("fc1", "shared_lt"), ("gene0",)):
        out.append(Obl("ids_identifiers_shared_across_types_%s" % "-".join(req), guid_fn(("gene", "fc"), "identifiers", req, shared=True), dict(gbase), gpre_for(("gene", "fc")),
                       budget=400, cost=25, desc="identifier query when a gene and a feature collection share one identifier (locus tag): every member carrying a "
                                                 "requested identifier is returned, whatever its type", bounds="2 members, requested ids %s, unbounded symbolic coordinates" % (req,),
                       examples=[gex]))
    out.append(Obl("interval_guids_keep_requested_grandchildren", interval_guid_subset_fn(),
                   dict(s0=int, l0=int, g=int, l1=int, lo=int, hi=int, r0=bool, r1=bool, r2=bool),
                   lambda s0, l0, g, l1, lo, hi, r0, r1, r2: s0 >= 0 and l0 >= 1 and g >= 1 and l1 >= 1 and 0 <= lo and lo <= s0 and s0 + l0 + g + l1 <= hi,
                   budget=900, cost=120,
                   desc="interval-GUID query keeps only the requested transcripts/features inside their (once-returned) parent",
                   bounds="gene with 2 transcripts + feature collection with 2 features, every subset of 3 requested grandchildren",
                   examples=[dict(s0=3, l0=4, g=2, l1=5, lo=0, hi=30, r0=True, r1=True, r2=True)]))
    for strict in (True, False):
        out.append(Obl("sequence_after_query_%s" % ("strict" if strict else "relaxed"), sequence_fn(strict),
                       dict(qs=int, qe=int), lambda qs, qe: 0 <= qs and qs < qe and qe <= 24, budget=300, cost=60, stubs=dict(bins="real"),
                       desc="collection with sequence: after a %s position query the members' sequences equal the source sequence restricted to the new "
                            "bounds; re-querying is idempotent (REAL bins, real sequence re-chunking)" % ("strict" if strict else "relaxed"),
                       bounds="40-nt genome, 3 member layouts (native loop), every query range within [0,24] (realised)",
                       examples=[dict(qs=1, qe=20)]))
    cpre = lambda w, s0, l0, s1, l1, qs, qe: (w >= 1 and w <= s0 and l0 >= 1 and s0 + l0 <= s1 and l1 >= 1 and s1 + l1 <= w + 24  # noqa: E731
                                              and w <= qs and qs < qe and qe <= w + 24 and qs >= 1)
    out.append(Obl("position_on_chunk_real_bins", chunk_query_fn(False), dict(w=int, s0=int, l0=int, s1=int, l1=int, qs=int, qe=int),
                   lambda w, s0, l0, s1, l1, qs, qe: cpre(w, s0, l0, s1, l1, qs, qe) and 131066 <= w and w <= 131071 and s0 == w + 3 and l0 == 4
                   and s1 == w + 10 and l1 == 5 and (qs - w) % 4 == 1 and (qe - w) % 5 == 0, budget=300, cost=40, stubs=dict(bins="real"),
                   desc="collection on a sequence chunk whose chromosome offset straddles a 128 kb bin boundary: strict and relaxed queries (REAL bins) "
                        "return exactly the members inside/overlapping the range", bounds="chunk offsets 131066..131071, 2 members, query grid (realised)",
                   examples=[dict(w=131070, s0=131073, l0=4, s1=131080, l1=5, qs=131071, qe=131090)]))
    # members CUT by the chunk edge (their chromosome span reaches outside the chunk): the strict test is about the chromosome span, not its in-chunk part
    cutpre = lambda w, s0, l0, s1, l1, qs, qe: (w >= 4 and w - 3 <= s0 and l0 >= 1 and s0 + l0 <= s1 and l1 >= 1 and s1 + l1 <= w + 27  # noqa: E731
                                                and s0 + l0 > w and s1 < w + 24 and (s0 < w or s1 + l1 > w + 24) and w <= qs and qs < qe and qe <= w + 24)
    out.append(Obl("position_on_chunk_cut_members_real_bins", chunk_query_fn(False), dict(w=int, s0=int, l0=int, s1=int, l1=int, qs=int, qe=int),
                   lambda w, s0, l0, s1, l1, qs, qe: cutpre(w, s0, l0, s1, l1, qs, qe) and w == 5 and (l0 == 2 or l0 == 5) and (l1 == 3 or l1 == 6)
                   and (s1 - s0 - l0) % 7 == 0 and (qs - w) <= 1 and (w + 24 - qe) <= 1, budget=400, cost=60, stubs=dict(bins="real"),
                   desc="collection on a sequence chunk whose members are cut by the chunk edge: a strict query returns a member only if its whole CHROMOSOME "
                        "span lies in the range (the in-chunk part is irrelevant), a relaxed query if the span overlaps it (REAL bins)",
                   bounds="chunk [5,29), 2 members reaching up to 3 nt outside on either side, queries touching the chunk edges (realised)",
                   examples=[dict(w=5, s0=3, l0=5, s1=22, l1=6, qs=5, qe=29), dict(w=5, s0=6, l0=5, s1=25, l1=6, qs=6, qe=28)]))
    if not quick:
        out.append(Obl("position_on_chunk_cut_members_symbolic", chunk_query_fn(True), dict(w=int, s0=int, l0=int, s1=int, l1=int, qs=int, qe=int), cutpre,
                       budget=3000, cost=900,
                       desc="as position_on_chunk_cut_members_real_bins with a SYMBOLIC chunk offset and unbounded coordinates (bins contract stub)",
                       bounds="chunk length 24, 2 members cut by either chunk edge", examples=[dict(w=100, s0=98, l0=5, s1=117, l1=9, qs=100, qe=124)]))
    if not quick:
        out.append(Obl("position_on_chunk_symbolic", chunk_query_fn(True), dict(w=int, s0=int, l0=int, s1=int, l1=int, qs=int, qe=int), cpre,
                       budget=3000, cost=900,
                       desc="collection on a sequence chunk at a SYMBOLIC offset: strict and relaxed queries return exactly the specified members (bins contract stub)",
                       bounds="chunk length 24, 2 members, unbounded symbolic offset/coordinates/query", examples=[dict(w=100, s0=103, l0=4, s1=110, l1=5, qs=101, qe=120)]))
    out.append(Obl("position_many_members_real_bins", many_members_fn(), dict(n=int, h=int, span=int, q=int, ab=int, within=int),
                   lambda n, h, span, q, ab, within: (n == 70 or (n == 30 and not quick)) and 0 <= h and h <= 1 and (span == 1 or span == 5 or span == 39 or span == 60) and
                   (q == 0 or q == 1 or q == 2 or q == 5 or q == 6 or q == 40 or q == 41 or q == 61) and 0 <= ab and ab <= 3 and 0 <= within and within <= 1,
                   budget=900, cost=120, stubs=dict(bins="real"),
                   desc="collection of 70 tiled short genes plus a long gene and a long feature collection that start upstream and span 1 / 5 / 39 / 60 tiles: strict and "
                        "relaxed position queries (whole tile, inside a gap, inside a gene, 7 tiles) anywhere return exactly the members within / overlapping, real bins()",
                   bounds="72 members; host start 2 x host span 4 x query tile 8 x query shape 4 x strict/relaxed (closed by the solver)",
                   examples=[dict(n=70, h=0, span=60, q=40, ab=1, within=0), dict(n=70, h=1, span=5, q=5, ab=0, within=1)]))
    out.append(Obl("strict_query_real_bins_near_2pow29", real_bins_fn(), dict(k=int), lambda k: 0 <= k and k <= 4, budget=300, cost=20,
                   stubs=dict(bins="real"), consts=dict(),
                   desc="strict range query with the REAL bin pre-filter returns the contained members for query ends around 2^29",
                   bounds="query end 2^29-2 .. 2^29+2 (realised)", examples=[dict(k=0)]))
    return out
