#!/bin/bash
# usage: tools/sweep.sh <quick|thorough> <outdir> [--no-evidence]   runs every registered check of a tier one after the other, one log per property
# (thorough with --no-evidence does not touch evidence/: committed evidence must come from runs in /verif itself)
tier=${1:-quick}; out=${2:-/tmp/sweep_$tier}; extra=$3
cd "$(dirname "$0")/.."; mkdir -p "$out"; rm -f "$out/SUMMARY"
for p in ${ORDER:-C16 C15 C18 C13 C10 C06 C04 C08 C17 C20 C11 C14 C19 C03 C09 C02 C07 C05 C01}; do
  start=$(date +%s)
  ./bin/check $p $tier $extra > "$out/$p.log" 2>&1; rc=$?
  echo "$p rc=$rc wall=$(( $(date +%s) - start ))s $(grep -c '^VIOLATION' "$out/$p.log") violations; $(grep -m1 "^$p $tier:" "$out/$p.log")" >> "$out/SUMMARY"
done
echo DONE >> "$out/SUMMARY"
