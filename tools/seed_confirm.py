#!/usr/bin/env python3
"""Confirm a sub-agent's mutation in a fresh scratch worktree of /repo HEAD and store it under /verif/seeded/<id>/.
usage: seed_confirm.py <PROP> <src_dir containing patch.diff demo.py notes.md> <seed_id>"""
import json, os, shutil, subprocess, sys, tempfile

prop, src, sid = sys.argv[1], sys.argv[2], sys.argv[3]
wt = tempfile.mkdtemp(prefix="seedwt_", dir="/tmp")
os.rmdir(wt)
def sh(cmd, cwd=None):
    return subprocess.run(cmd, shell=True, cwd=cwd, capture_output=True, text=True)
ran = []
try:
    assert sh("git -C /repo worktree add -q %s HEAD" % wt).returncode == 0
    shutil.copytree(src, os.path.join(wt, "OUTSEED"))
    demo = "/venv/bin/python OUTSEED/demo.py"
    r0 = sh(demo, wt); ran.append("pristine demo rc=%d" % r0.returncode)
    ap = sh("git apply OUTSEED/patch.diff", wt); ran.append("git apply rc=%d %s" % (ap.returncode, ap.stderr.strip()[:200]))
    t = sh("/venv/bin/python -m pytest -q -p no:cacheprovider --timeout=900 --continue-on-collection-errors 2>&1 | tail -1", wt)
    tally = t.stdout.strip(); ran.append("tests with mutation: " + tally)
    r1 = sh(demo, wt); ran.append("mutated demo rc=%d" % r1.returncode)
    base = os.environ.get("SEED_BASE_TALLY", "2045 passed, 7 errors")  # tally of the pristine tree at /repo HEAD
    ok = r0.returncode == 0 and ap.returncode == 0 and r1.returncode != 0 and base in tally
    print("\n".join(ran)); print("CONFIRMED" if ok else "REJECTED")
    if ok:
        dst = "/verif/seeded/%s" % sid
        os.makedirs(dst, exist_ok=True)
        for f in ("patch.diff", "demo.py", "notes.md"):
            shutil.copy(os.path.join(src, f), dst)
        notes = open(os.path.join(src, "notes.md")).read()
        json.dump(dict(seed_id=sid, property=prop, needs_to_manifest=notes, confirmed=ran,
                       demo_tail_with_mutation=(r1.stdout + r1.stderr)[-600:]), open(os.path.join(dst, "meta.json"), "w"), indent=1)
finally:
    sh("git -C /repo worktree remove --force %s" % wt)
