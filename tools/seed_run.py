#!/usr/bin/env python3
"""Run checks against a seeded mutation: apply to /repo, run bin/check <PROP> <tier>, undo. Writes seeded/<id>/result_<tier>.json
usage: seed_run.py <seed_id> [tier] [PROP override]"""
import json, os, subprocess, sys, time
sid = sys.argv[1]; tier = sys.argv[2] if len(sys.argv) > 2 else "quick"
d = "/verif/seeded/%s" % sid
meta = json.load(open(d + "/meta.json"))
prop = sys.argv[3] if len(sys.argv) > 3 else meta["property"]
assert subprocess.run("git -C /repo status --porcelain", shell=True, capture_output=True, text=True).stdout.strip() == "", "repo dirty"
assert subprocess.run("git -C /repo apply %s/patch.diff" % d, shell=True).returncode == 0
t0 = time.time()
try:
    r = subprocess.run("cd /verif && ./bin/check %s %s --no-evidence" % (prop, tier), shell=True, capture_output=True, text=True)
finally:
    subprocess.run("git -C /repo checkout -- .", shell=True)
viol = [l for l in r.stdout.splitlines() if l.startswith("VIOLATION")]
summ = [l for l in r.stdout.splitlines() if l.startswith(prop + " " + tier)]
det = [l for l in r.stdout.splitlines() if l.strip().startswith("violated obligation")][:4]
res = dict(seed=sid, property=prop, tier=tier, rc=r.returncode, detected=bool(viol) and r.returncode == 1, violations=len(viol),
           summary=summ, first=det, wall_s=round(time.time() - t0, 1))
json.dump(res, open("%s/result_%s_%s.json" % (d, prop, tier), "w"), indent=1)
print("%s %s %s: %s rc=%d wall=%.0fs %s" % (sid, prop, tier, "DETECTED" if res["detected"] else "MISSED", r.returncode, res["wall_s"], det[:1]))
if r.returncode not in (0, 1) or "-v" in sys.argv:
    print(r.stdout[-2500:]); print(r.stderr[-1500:])
