#!/usr/bin/env python3
"""Run checks against a seeded mutation. Default: scratch worktree of /repo HEAD with the patch applied, checks pointed at it through
VERIF_REPO (does not touch /repo, so several seeds can run side by side); --inplace: apply to /repo, run, undo (the brief's procedure).
Writes seeded/<id>/result_<PROP>_<tier>.json
usage: seed_run.py <seed_id> [tier] [PROP override] [--inplace] [-v] [--only regex]"""
import json, os, subprocess, sys, tempfile, time
args = [a for a in sys.argv[1:] if not a.startswith("-")]
only = None
if "--only" in sys.argv:
    only = sys.argv[sys.argv.index("--only") + 1]
    args.remove(only)
sid = args[0]; tier = args[1] if len(args) > 1 else "quick"
d = "/verif/seeded/%s" % sid
meta = json.load(open(d + "/meta.json"))
prop = args[2] if len(args) > 2 else meta["property"]
inplace = "--inplace" in sys.argv
extra = (" --only '%s'" % only) if only else ""
t0 = time.time()
if inplace:
    assert subprocess.run("git -C /repo status --porcelain", shell=True, capture_output=True, text=True).stdout.strip() == "", "repo dirty"
    assert subprocess.run("git -C /repo apply %s/patch.diff" % d, shell=True).returncode == 0
    try:
        r = subprocess.run("cd /verif && ./bin/check %s %s --no-evidence%s" % (prop, tier, extra), shell=True, capture_output=True, text=True)
    finally:
        subprocess.run("git -C /repo checkout -- .", shell=True)
else:
    wt = tempfile.mkdtemp(prefix="seedrun_%s_" % sid, dir="/tmp"); os.rmdir(wt)
    assert subprocess.run("git -C /repo worktree add -q %s HEAD" % wt, shell=True).returncode == 0
    try:
        assert subprocess.run("git -C %s apply %s/patch.diff" % (wt, d), shell=True).returncode == 0, "patch does not apply"
        r = subprocess.run("cd /verif && VERIF_REPO=%s ./bin/check %s %s --no-evidence%s" % (wt, prop, tier, extra), shell=True, capture_output=True, text=True)
    finally:
        subprocess.run("git -C /repo worktree remove --force %s" % wt, shell=True)
viol = [l for l in r.stdout.splitlines() if l.startswith("VIOLATION")]
summ = [l for l in r.stdout.splitlines() if l.startswith(prop + " " + tier)]
det = [l for l in r.stdout.splitlines() if l.strip().startswith("violated obligation")][:4]
res = dict(seed=sid, property=prop, tier=tier, rc=r.returncode, detected=bool(viol) and r.returncode == 1, violations=len(viol),
           summary=summ, first=det, wall_s=round(time.time() - t0, 1), mode="inplace" if inplace else "worktree")
if not only:
    json.dump(res, open("%s/result_%s_%s.json" % (d, prop, tier), "w"), indent=1)
print("%s %s %s: %s rc=%d wall=%.0fs %s" % (sid, prop, tier, "DETECTED" if res["detected"] else "MISSED", r.returncode, res["wall_s"], [x[:300] for x in det[:1]]))
if r.returncode not in (0, 1) or "-v" in sys.argv:
    print(r.stdout[-2500:]); print(r.stderr[-1500:])
