#!/usr/bin/env python3
"""Regenerates MANIFEST.json from the table below (kept in one place so the manifest is always valid)."""
import json
import os

ROOT = os.path.dirname(os.path.dirname(os.path.abspath(__file__)))
LEVEL = "model_checking"

CHECKS = {
    # id: (technique, level text, level note, design ref)
}
NOT_APPLICABLE = {}

exec(open(os.path.join(ROOT, "tools", "manifest_table.py")).read())

m = dict(
    version=1,
    setup_cmd="./bin/ensure_env.sh",
    hooks=dict(
        guard="INSCRIPTALABS_BIOCANTOR_VERIF",
        enable="no source hooks: all instrumentation is harness-side (CrossHair patches inside the worker process); "
               "checks export INSCRIPTALABS_BIOCANTOR_VERIF=1 for uniformity",
        baseline_off_cmd="cd /repo && /venv/bin/python -m pytest -ra -q -p no:cacheprovider --timeout=900 "
                         "--continue-on-collection-errors",
        source_commits=[],
        add_only=True,
    ),
    engines=[
        dict(name="crosshair-runner", path="vlib/runner.py", serves_properties=sorted(CHECKS),
             kind_free_text="symbolic execution of the real BioCantor modules (CrossHair 0.0.110 + z3 5.1), one small "
                            "obligation per process, exhaustive path tree per obligation, counterexamples replayed on the plain interpreter"),
        dict(name="src2smt", path="vlib/src2smt.py", serves_properties=[p for p in ("C16", "C15", "C11") if p in CHECKS],
             kind_free_text="SMT encodings regenerated from /repo source (AST) or live tables at every run; z3 with cvc5 cross-check"),
    ],
    checks=[],
    not_applicable=[dict(property_id=k, reason=v) for k, v in sorted(NOT_APPLICABLE.items())],
    notes="bin/check <id> <quick|thorough> [--replay file]. Exit 0 held / 1 VIOLATION / 3 harness error (never on the unchanged tree). "
          "Known genuine defects: known_findings.json (KNOWN-FINDING lines, exit 0).",
)
for pid in sorted(CHECKS):
    tech, text, note, ref = CHECKS[pid]
    m["checks"].append(dict(
        property_id=pid,
        quick_cmd="./bin/check %s quick" % pid,
        thorough_cmd="./bin/check %s thorough" % pid,
        evidence_file="evidence/%s.json" % pid,
        replay_cmd_template="./bin/check %s quick --replay {path}" % pid,
        engine="crosshair-runner" if "src2smt" not in tech else "src2smt",
        level_claimed=dict(category=LEVEL, text=text, design_ref=ref),
        level_note=note,
        technique=tech,
    ))
json.dump(m, open(os.path.join(ROOT, "MANIFEST.json"), "w"), indent=1)
print("MANIFEST.json: %d checks, %d not applicable" % (len(m["checks"]), len(m["not_applicable"])))
