#!/usr/bin/env python3
"""Cheap regression run over the seeded changes: for every seed with a recorded detection, re-run ONLY the obligation(s) that caught it last time
(seed_run.py --only), in scratch worktrees, N at a time. Seeds without a recorded detection, or whose recorded obligation no longer catches them,
are listed for a full run. Writes seeded/<id>/recheck.json. usage: seed_recheck.py [jobs]"""
import glob, json, os, re, subprocess, sys
from concurrent.futures import ThreadPoolExecutor

jobs = int(sys.argv[1]) if len(sys.argv) > 1 else 4
todo, full = [], []
for d in sorted(glob.glob("/verif/seeded/C*_m*/")):
    sid = os.path.basename(d.rstrip("/"))
    best = None
    for f in sorted(glob.glob(d + "result_*.json")):
        r = json.load(open(f))
        if r.get("detected") and r.get("first"):
            m = re.search(r"violated obligation (\S+)", r["first"][0])
            if m:
                best = (r["property"], m.group(1))
    (todo if best else full).append((sid, best))


def run(item):
    sid, (prop, ob) = item
    base = ob.split("__cube_")[0]
    p = subprocess.run(["python3", "/verif/tools/seed_run.py", sid, "quick", prop, "--only", "^" + re.escape(base)], capture_output=True, text=True)
    line = [l for l in p.stdout.splitlines() if l.startswith(sid)]
    det = bool(line) and "DETECTED" in line[0]
    json.dump(dict(seed=sid, property=prop, obligation=base, detected=det, line=(line or [""])[0][:300]), open("/verif/seeded/%s/recheck.json" % sid, "w"), indent=1)
    return sid, det


with ThreadPoolExecutor(max_workers=jobs) as ex:
    res = list(ex.map(run, todo))
bad = [s for s, d in res if not d]
print("rechecked %d seeds: %d still detected by the same obligation; NOT detected by it any more: %s" % (len(res), len(res) - len(bad), bad))
print("no recorded detection (need a full run): %s" % [s for s, _ in full])
