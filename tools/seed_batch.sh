#!/bin/bash
# usage: seed_batch.sh Cxx_a:Cxx_m4 ...   confirm each sub-agent output (/tmp/sa/out/<src>) into seeded/<dst> and run the quick check on it
cd /verif
for x in "$@"; do
  src=${x%%:*}; dst=${x##*:}; prop=${src%%_*}
  if [ ! -d seeded/$dst ]; then python3 tools/seed_confirm.py $prop ${SEED_OUT:-/tmp/sa/out}/$src $dst 2>&1 | tail -1; fi
  if [ -d seeded/$dst ]; then python3 tools/seed_run.py $dst quick 2>&1 | grep -v "^WARNING" | tail -1; fi
done
