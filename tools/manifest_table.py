# table consumed by tools/gen_manifest.py
_CH = "bounded symbolic execution of the real code (CrossHair + z3): exhaustive path tree per obligation"
_NOTE = ("Trusted: CrossHair 0.0.110's model of CPython, z3 5.1, the harness stubs listed in the evidence file, the "
         "reference oracle in harness/; bound = shape (block/exon/child counts) stated in evidence, coordinates unbounded "
         "unless stated. Inconclusive obligations are reported, never counted as discharged.")
CHECKS["C01"] = (
    _CH,
    "Every obligation (point maps, sub-interval and relative-location conversions, FeatureInterval wrappers) is decided "
    "for ALL integer coordinates of every layout with <=3 (quick) / <=4 (thorough) blocks on both strands: the path tree is "
    "exhausted and each path's negated oracle is unsat. A seeded off-by-one/strand bug is returned as a concrete input and replayed.",
    _NOTE, "DESIGN.md §3 C01")
for _p in ["C02", "C03", "C04", "C05", "C06", "C07", "C08", "C09", "C10", "C11", "C13", "C14", "C15", "C16", "C17", "C18",
           "C19", "C20"]:
    NOT_APPLICABLE[_p] = "check not built yet (build in progress; see DESIGN.md §3 for the planned solver-based check)"
NOT_APPLICABLE["C12"] = ("GenBank writer cannot emit a feature on the installed Biopython (SeqFeature(strand=) TypeError), the "
                         "parser needs the absent PyVCF module, and the oracle is third-party text parsing (Bio.SeqIO): nothing "
                         "of the property is reachable by symbolic execution of real code here")
