# table consumed by tools/gen_manifest.py
_CH = "bounded symbolic execution of the real code (CrossHair + z3): exhaustive path tree per obligation"
_NOTE = ("Trusted: CrossHair 0.0.110's model of CPython, z3 5.1, the harness stubs listed in the evidence file, the "
         "reference oracle in harness/; bound = shape (block/exon/child counts) stated in evidence, coordinates unbounded "
         "unless stated. Inconclusive obligations are reported, never counted as discharged.")
CHECKS["C01"] = (
    _CH,
    "Every obligation (point maps, sub-interval and relative-location conversions, FeatureInterval wrappers) is decided "
    "for ALL integer coordinates of every layout with <=3 (quick) / <=4 (thorough) blocks on both strands: the path tree is "
    "exhausted and each path's negated oracle is unsat; the relative-location conversions also leave both operands unchanged. A seeded "
    "off-by-one/strand bug is returned as a concrete input and replayed."
    " Also: point maps of DERIVED locations (results of optimize_blocks / whole-length sub-intervals on overlapping layouts) and 17-block (thorough 40) locations with symbolic common length/gap."
    " Round 9: strand-flipped / re-stranded copies of overlapping layouts answer like fresh locations; every window of scan_windows on overlapping / nested blocks is the documented sub-interval.",
    _NOTE, "DESIGN.md §3 C01")
CHECKS["C02"] = (
    _CH,
    "Each set operation (has_overlap, intersection, union, union_preserve_overlaps, minus, contains, gaps, optimisers, extend, "
    "reverse, shift, distance) is compared with position-set semantics through one symbolic probe position and closed forms, "
    "for ALL integer coordinates of operands up to (2,1)/(1,2) blocks (quick; 2x2 for full-span, 3x2 for INNER distance) and "
    "(2,2),(3,1),(1,3) (thorough), all flag combinations, parents none/equal/mismatched (by id, sequence, sequence type, grand-parent); result normal form asserted; "
    "every obligation also asserts both operands unchanged."
    " Round 7: both operands with 12 blocks (144 pairs) interleaving with a common period and an empty block placed anywhere; is_overlapping / merge_overlapping / optimize_and_combine_blocks asked of locations RETURNED by optimize_blocks / minus / union_preserve_overlaps."
    " Round 9: three-call overlap histories on one object; 34x34-block operands with a self-overlapping block; contains / intersection / has_overlap with operands whose own blocks overlap (defect found and repaired, 8a6aad3); parents differing only in their placement on the grandparent.",
    _NOTE, "DESIGN.md §3 C02")
CHECKS["C06"] = (
    _CH,
    "For every exon layout (<=2 exons quick, <=3 thorough) and every CDS window placement (driver-enumerated exon span, symbolic "
    "offsets) on both strands: chromosome/transcript/CDS conversions commute and invert, out-of-system positions are rejected, "
    "aa == cds//3 for all start frames, 5'UTR/CDS/3'UTR partition the exons in order (empty UTRs are values), introns == span minus exons."
    " Also: interval conversions with relative strand MINUS (whole-length intervals included)."
    " Round 7: conversions on a transcript after its gene's merged transcript / CDS / primary transcript were computed (aggregates leave members alone).",
    _NOTE, "DESIGN.md §3 C06")
CHECKS["C16"] = (
    "src2smt: bins() translated from its AST to z3 integer terms at every run; z3 + cvc5 decide each query over all integers",
    "bins() is re-translated from /repo's source on every run and validated against the real function on boundary grids; "
    "UCSC-equality, out-of-range, containment, int-return and the never-hidden contract (contained and overlapping) are unsat "
    "queries over ALL integers (no bound); helper functions are inlined and module-level memo tables are encoded as arbitrary earlier calls "
    "(free variables), so the queries hold for every call history; constructor wiring (incl. chunk parents) and the CONSUMER - range queries of "
    "the real AnnotationCollection code against the exact bin terms, strict and relaxed, 2-isoform gene with a gap - are decided by CrossHair. "
    "Recorded deviations (F6a, F6b, F6e) are excluded by their exact regions and replayed on every run."
    " Stored bins of gene/feature/collection objects are compared on the exact bin terms (wiring_exact_*), and a straddling 2-isoform gene with a later contained member is in the quick tier."
    " Round 7: members that are variant collections lying anywhere outside the hull of the genes, and members sharing a user-supplied guid, under exact bins."
    " Round 9: 72-member collections over 160+ bins with coding_only, strict and relaxed, real bins().",
    "Trusted: z3 5.1 / cvc5 1.4 on LIA with div by constants; the translator (validated per run); the independent UCSC "
    "reference in harness/c16.py. If bins() leaves the translatable subset the SMT obligations are inconclusive and a "
    "concrete boundary-grid fallback (stated in evidence) is the only remaining detector.",
    "DESIGN.md §3 C16")
CHECKS["C14"] = (
    _CH,
    "BED12 invariants (count/sizes/starts consistency, first start 0, ascending, last start+size == end-start, thick range) and "
    "faithful decoding are asserted on the record AND on str(BED12) read back by a 12-column reader through symbolic-token "
    "rendering, for all integer coordinates of <=3 (quick) / <=4 (thorough) block transcripts/features, coding (every exon "
    "sub-span) or not, both strands, chromosome mode, chunk-built chromosome mode and chunk-relative mode with a symbolic chunk "
    "offset; adjacent blocks; 5'-partial CDSs (start frame 1/2); both modes asked of one object in either order."
    " Round 7: chunks placed on the MINUS strand (mirrored blocks and thick range, strand in chunk coordinates; defect found and repaired, f6a2b2a); name column across classes in one process."
    " Round 9: name= given a property name (id / name); the mode flag as a truth value (0 / None / 1).",
    _NOTE, "DESIGN.md §3 C14")
CHECKS["C05"] = (
    _CH,
    "Codon locations are compared base by base with an independent reading-frame model for every exon-length vector (1 exon "
    "1..7, 2 exons 1..4 each, 3-exon representatives; thorough: all 3-exon 1..4 and 2-exon 1..7) x every annotated frame vector "
    "x both strands with UNBOUNDED symbolic start and gaps (0-bp gaps included); windowed scans with symbolic window; "
    "construct_frames_from_location with symbolic lengths; fast/codon/cached sequence paths, translation (3 tables x truncate) "
    "and start/stop predicates against the standard code on a concrete genome (offsets enumerated by the solver)."
    " Also: construct_frames_from_location as a pure function under real memoisation (earlier results unchanged, caller edits irrelevant); codon-less CDSs answer every predicate with the empty value or a documented refusal."
    " Round 8: translation on a genome with ambiguity codes - a truncated translation never looks past the first in-frame stop (3 tables x truncate x strict).",
    _NOTE + " Sequence legs: inputs are realised, the body then runs natively; the solver closes the finite input space.",
    "DESIGN.md §3 C05")
CHECKS["C15"] = (
    "z3 function-table queries over the live tables + CrossHair on the algebraic laws and the real Codon class (finite domains closed by the solver)",
    "The finite domains are decided completely: gencode vs the standard code (64), every expansion of every translatable IUPAC "
    "triplet (16^3), aacodons partition, start/stop sets vs NCBI tables 1/11, complement tables (totality, IUPAC agreement, "
    "involution, case) as unsat z3 queries over tables read from the live modules; CDSFrame.shift laws for ALL integers, "
    "frame<->phase, strand group/order laws and the real Codon class on all 4096 IUPAC triplets by CrossHair; a held strict codon keeps every "
    "answer after any other codon over ACGTU (either case) is constructed (singleton table isolation)."
    " Round 7: codon registry under pressure (all 4096 triplets + rejected strings); reverse complement of long mixed-case sequences at lengths 2^e-1..2^e+1."
    " Round 9: complement of every 3-letter text is letter-by-letter (no dependence on other letters); has_name / has_value agree with Enum lookups for near-miss spellings.",
    "Trusted: Bio.Data.CodonTable / IUPACData as reference tables; z3 5.1 (cvc5 1.4 cross-check); CrossHair for the laws.",
    "DESIGN.md §3 C15")
CHECKS["C18"] = (
    "bounded symbolic execution (CrossHair): the dictionary's key subset and insertion ORDER are symbolic; inputs are realised at the dict/regex boundary and the solver closes the finite order space",
    "extract_feature_name_id is run on EVERY ordered selection of <=3 (quick) / 4 (thorough) keys from a 14-key catalogue (all "
    "recognised keys in mixed case, look-alikes, note) against the documented priority spec; extract_feature_types on every ordered "
    "pair/triple of a 12-key catalogue; merge_qualifiers on every pair of catalogue dictionaries (union, sorted, no aliasing); the model-side "
    "merge (_merge_qualifiers / export_qualifiers of feature, transcript, CDS) on every pair of a 10-dictionary catalogue; "
    "gff3.parser.filter_and_sort_qualifiers on 3-subsets of a 25-key catalogue (exact reserved keys only). "
    "The rank-0 override (F1) is excluded by its exact region and replayed."
    " Round 7: reserved-key filter on consecutive dictionaries in a freshly loaded parser module (case variants in either order); GFF3 gene symbol / biotype / id priority through the real parser for every attribute order."
    " Round 9: qualifiers of every child row of a non-gene GFF3 feature (1..9 rows); sibling transcripts keep their own transcript_id / None in every record order.",
    _NOTE + " The GenBank-record-permutation clause is outside the claim (module not importable here).",
    "DESIGN.md §3 C18")
CHECKS["C03"] = (
    "bounded symbolic execution (CrossHair): location coordinates are symbolic, realised at the string-slicing boundary; the solver closes the finite coordinate space over tagged (all-letters-distinct) parent sequences",
    "On tagged parent sequences of every nucleotide alphabet (all 32 IUPAC letters/cases and the gap, rotated over four sequences) "
    "EVERY 1-block and 2-block location (sorted, adjacent, empty, overlapping) within the sequence on both strands is extracted and "
    "compared base by base with the coordinate map and an independent IUPAC complement; strand reversal, every two-way split, every "
    "slice bound pair in [-n-1,n+1] of located sequences, reverse_complement and append (acceptance and recorded location) are covered."
    " Also: append with spliced pieces and re-appending the halves of a spliced sequence cut anywhere; relative-minus windows taken after the enclosing location was extracted."
    " Round 8: locations built through from_single_intervals equal the primary constructor's (block order, coordinate map, characters); append of two spliced pieces leaves both operands and later equal locations intact.",
    _NOTE + " Coordinates are realised (str slicing is a C boundary): the claim is exhaustive over the stated finite spaces, not over unbounded integers.",
    "DESIGN.md §3 C03")
CHECKS["C04"] = (
    _CH,
    "Hierarchies are built directly from Parent objects (three construction idioms incl. io.parser's); child and placement block "
    "layouts are fully symbolic (<=2 blocks each, either strand; depth 3 with single-block placements in quick, deeper/wider in "
    "thorough): the i-th base of the lifted location equals the composition of the per-level point maps for a symbolic index i, "
    "strand = product. Chunk legs: symbolic chunk offset on either strand, lift down and back == intersection with the window, "
    "chunk-to-chunk re-lift; sequence preservation by identity and by type on tagged sequences at depth 2 and 3; missing ancestors refused."
    " Also: lift-over through a placement of two OVERLAPPING blocks (length preserved, every child base covered; block order is the library's sorted normal form)."
    " Round 7: a 20-block child through a two-block placement with the junction anywhere; lift-over by sequence identity on long named chromosomes differing in one base."
    " Round 8: io.parser chunk / chromosome parents for same-named sequences differing in one base."
    " Round 9: re-lifting a chunk location onto a same-window chunk of another sequence; Parent(sequence=, parent=) leaves the caller's Sequence untouched.",
    _NOTE, "DESIGN.md §3 C04")
CHECKS["C07"] = (
    _CH,
    "Twin construction inside each obligation: the same feature/transcript/CDS/gene built without parent, on the whole chromosome and on "
    "a sequence chunk whose window start is SYMBOLIC: chromosome-level answers (coordinates, blocks, to_dict, guid, codon locations, "
    "num_codons) are identical; the chunk-relative location lifted back equals the chromosome location inside the window (EmptyLocation "
    "when disjoint); chunk-relative codons lifted back are exactly the reading-frame model's codons fully inside the window (exon "
    "lengths/frames driver-enumerated, offsets symbolic; a realised variant covers more length/frame vectors); sequences/translation on "
    "the chunk equal the in-window stretch; CDS never dropped while the transcript stays coding; a CDS with no base in the chunk has no "
    "chunk-relative codon; computed identifiers (real MD5) of feature/transcript/CDS/gene/collections equal across no parent / chromosome / chunk. "
    "F8b and F18 excluded by their exact regions."
    " Also: every position conversion of a coding transcript on a cutting chunk equals the parent-less twin's; isoform CDSs with equal spans evaluated alternately on one chunk; the primary transcript/feature is the twin's. Block structure of the chunk view = chromosome blocks clipped to the window (touching blocks kept apart); codon windows by chromosome start/end on chunk-built CDSs list exactly the model codons inside window and chunk (defect found and repaired, a55c0c6); stop/start predicates and scan_codons of the chunk view."
    " Round 7: UTRs of chunk-built transcripts = chromosome UTR bases inside the window, on plus- and minus-strand chunks (defect found and repaired, 3b5d60d); every chunk_relative_* accessor, conversion along the visible part and from_chunk_relative_location on cutting chunks of both strands (b0cbd12, 68dca75); sequence answers on minus-strand chunks."
    " Round 8: codon windows asked in chromosome coordinates of a chunk-built CDS equal the twin's; io.parser chunk parents are built from their own sequence content; CDS- and feature-level chunk-relative conversions."
    " Round 9: lookups alternating between chromosome and chunk coordinates on 5'-cut transcripts.",
    _NOTE, "DESIGN.md §3 C07")
CHECKS["C08"] = (
    _CH + "; cvc5/z3 string queries over digest pre-image templates extracted from the real constructors",
    "Dictionary round trips of all eight interval/collection classes with fully symbolic coordinates (chunk parents with symbolic "
    "offset included); with the real MD5 on realised coordinates: equal content/any qualifier order/round trip => equal guid, one "
    "changed coordinate/strand/frame => different guid; digest pre-image injectivity for coordinates of ANY length <= 9 digits as "
    "unsat string queries (templates regenerated by running the real constructors with md5 recorded, validated on a second run); "
    "qualifier key/value insertion orders and set iteration orders (6x6x6, values differing only by case included); transcripts built from "
    "phases; pickle with none/chromosome/un-named chromosome/chunk parents and variant collections; schema+JSON load/dump with and without "
    "variants. F7 (VariantInterval pre-image without separator) recorded."
    " Also: features with blocks sharing a start (exported lists = constructor lists); an exported dictionary is not consumed by importing it (imports twice to the same collection)."
    " Round 7: chunk-relative dictionary export re-imported on the chunk sequence alone (blocks, chunk-relative frames, protein); two same-named long genomes re-imported alternately through from_dict / pickle."
    " Round 8: the alternative constructors from a Location (from_location) describe the same object (dictionary form and guid)."
    " Round 9: identifiers of 200-600-block objects and 9000-character qualifier values (one changed coordinate / frame / character changes the guid); qualifier values of mixed types.",
    _NOTE + " MD5 collision freedom assumed; pickle's byte format and a process-level PYTHONHASHSEED sweep are outside the claim.",
    "DESIGN.md §3 C08")
CHECKS["C13"] = (
    _CH,
    "Edit model (upstream unchanged / downstream shifted / variant inside a block: end shifted / block inside a deletion: empty) against "
    "the real lift-over helpers with UNBOUNDED symbolic variant and block coordinates (alt lengths 0..3 driver-enumerated, 1-2 "
    "block locations, 2-variant collections, overlap refusal); on a concrete 24-nt reference (variant offsets/spans/alts closed by "
    "the solver, whole chromosome and chunk): alternative_genomic_sequence == literal substitution, lifted locations and "
    "Feature/Transcript(coding and non-coding)/CDS.incorporate_variants reproduce the edited reference (CDS also in frame and inside the "
    "exons); 3-variant collections in any order refused exactly when a pair overlaps. F4 (left-to-right collection lift-over) recorded with its region."
    " Also: collections built with two variant collections (alternative_haplotype_mapping per haplotype); the reference object is unchanged by a lift-over and a second lift-over gives the same answer. Single variants on overlapping / nested two-block locations; locations printing the same numbers in chunk and chromosome coordinates lifted through one haplotype object in both orders."
    " Round 8: two-haplotype collections placed where genes straddle a 2^17 / 2^18 coordinate (real bins()); one VariantInterval object shared by two collections on different references.",
    _NOTE + " The VCF grouping clause is outside the claim (PyVCF absent).", "DESIGN.md §3 C13")
CHECKS["C20"] = (
    _CH,
    "Genes of 2 (quick) / 3 (thorough) transcripts and feature collections of 2-3 features with UNBOUNDED symbolic coordinates and "
    "CDS lengths (ties included), coding pattern / primary flags / exon counts / strands driver-enumerated: span = (min,max), "
    "is_coding = any, primary = flagged (two flags refused) else argmax (CDS, spliced length, earliest) as a symbolic term, merged "
    "transcript/CDS/feature cover exactly the union (probe position), types = union; annotation collections iterate sorted by "
    "start (stable) with inferred bounds; primary sequence accessors on a concrete genome."
    " Aggregating leaves the members as they were (types of a re-collected member). Two and three variant collections handed over out of start order."
    " Round 8: a gene and the sub-gene a guid query leaves of it (same guid and span) each answer for their own isoforms, whatever gene_type says.",
    _NOTE, "DESIGN.md §3 C20")
CHECKS["C09"] = (
    _CH + "; the bin pre-filter is modelled twice: by the EXACT semantics of bins() (z3 terms generated from its source, bin numbers symbolic) and by a nondeterministic CONTRACT stub whose contract C16 proves",
    "Position queries on 2-member collections (gene/gene, gene/feature collection, gene/variant collection) with UNBOUNDED symbolic "
    "member coordinates, collection bounds and query range, for the flag combinations (all 8 for gene+feature collection): member "
    "returned <=> strict/relaxed geometric spec and coding filter, whatever the bin stub answers outside its contract; result "
    "bounds (incl. expansion), members' coordinates/dictionary form/child guids unchanged, invalid ranges refused; guid / "
    "interval-guid / identifier queries for every enumerated request set; interval-guid sub-selection; realised legs with the REAL "
    "bins and real sequence re-chunking (sequences restricted to new bounds, idempotence, chunk offsets across a 128 kb boundary, members cut "
    "by the chunk edge, 2^29 boundary = recorded finding F6c); strict and relaxed queries against the exact bin terms for ALL integer "
    "coordinates (F6d region excluded)."
    " Also: two different genomes carrying the same chromosome name queried alternately in one process."
    " Round 8: 72-member collections with long members starting upstream of short ones (real bins()); collections holding only variant collections.",
    _NOTE + " cgranges branch not installed, not covered.", "DESIGN.md §3 C09")
CHECKS["C19"] = (
    _CH + " in CrossHair's native mode: search for an input that raises an undocumented exception or yields an ill-formed object",
    "Constructors and 18 coordinate methods of locations are called with UNCONSTRAINED symbolic integers (negative, inverted, huge) on "
    "all three strands; Parent/Sequence/CDS/Transcript/Feature/Gene/collection/variant constructors with every kind of inconsistent "
    "argument; boundary probes (zero-length requests, window == length, empty/duplicate children, codon-less CDS, 5000-block "
    "locations under the default recursion head-room, query ranges with unconstrained integers, 3-variant collections in any order). Post-condition: a well-formed value, or an exception from the allowed set "
    "(BioCantorException subclasses, ValueError, TypeError, NotImplementedError); any other exception is a counterexample."
    " Also: invalid codon text refused on every request (no half-built singleton), and a single out-of-alphabet character at block edges (multiples of 1024) of a 196613-nt sequence."
    " Round 7: valid constructions ending at 2^e-1, 2^e, 2^e+1 (e = 14..31) with the real bins(); members re-parented by a collection refuse with documented errors only."
    " Round 9: CDS blocks outside the exons (finding F20 recorded with its region); strict parent comparison refuses systems placed differently on their parent; one foreign character (128 x 5 positions) in every alphabet.",
    _NOTE, "DESIGN.md §3 C19")
CHECKS["C11"] = (
    _CH + "; z3 queries over the live escape tables; the export->parse leg runs the real gffutils-based parser natively on realised inputs",
    "EXPORT: rows of a collection (gene with coding + non-coding transcript, feature collection) with UNBOUNDED symbolic "
    "coordinates are rendered through symbolic tokens and read back column by column: 9 columns, 1-based inclusive start<=end "
    "equal to the source blocks, strand symbols, phase only on CDS rows and equal to the frame-derived phase, unique IDs, Parents "
    "defined earlier, rows ordered by start, both coordinate modes (chunk at symbolic offset); escape tables over ALL code points "
    "(z3) and every string of length <=3 (thorough 4) over a 16-character special alphabet through the real escape functions and "
    "GFFAttributes (percent-decoding returns the original, comma = documented value separator, empty -> nan); reserved keys; writer "
    "headers/ordering/FASTA section. EXPORT->PARSE: for 3 exon layouts (incl. a 0-bp gap), every CDS window, 3 start frames x 3 frame-vector modes, "
    "isoform kinds, identifier and biotype patterns, with and without FASTA: the parsed gene models equal the source (exons, CDS blocks, frames, "
    "strand, ids, symbols, locus tag, biotypes, protein id, product, qualifiers, sequences), re-export reproduces columns 1-8 and is a fixed point "
    "from the second generation. F15, F16, F17 recorded."
    " Isoforms with and without transcript id in one gene are among the identifier patterns."
    " Round 7: rows of a gene / feature collection on a chunk placed on the MINUS strand (chromosome rows = twin's, chunk-relative rows = mirror image with the chunk strand on every row; defect found and repaired, 2b8acd1)."
    " Round 8: coding pseudogene transcripts and number-like qualifier text (1.10, 007, 1e3, +5) survive export -> parse."
    " Round 9: GFF3 text with CDS rows and no exon rows (1-nt segments) through the real parser.",
    _NOTE + " The parse legs are realised (gffutils/sqlite3 run natively): exhaustive over the stated finite spaces only.", "DESIGN.md §3 C11, §8.1")
CHECKS["C17"] = (
    _CH,
    "Interval lines of gene/RNA features with UNBOUNDED symbolic coordinates rendered through symbolic tokens and read back by an "
    "independent 5-column reader (1-based inclusive blocks in 5'->3' order, start>end on minus, feature type on the first line only, "
    "locus tag); locus-tag stepping with a SYMBOLIC step over a two-sequence file; coding genes on a 48-nt genome built from "
    "start/stop/sense codons, every CDS window x start frame x strand x translation table x flavour closed by the solver: "
    "5'-partial <=> first codon not a start of the table, 3'-partial <=> not ending in frame on a stop, codon_start = frame+1, pseudo "
    "<=> in-frame stop, mRNA omitted in the prokaryotic flavour; adjacent CDS blocks merged; seeded output byte-identical."
    " Also: adjacent CDS blocks with arbitrary annotated frames (pseudo / partial marks / codon_start of the MERGED CDS that is written) and two-exon CDSs with exon lengths 1..9 (stop codons split by the intron). Isoforms sharing CDS bounds with different first exons keep their own partial marks; exporting one collection three times gives identical text and leaves the model untouched (rRNA/tRNA/ncRNA products)."
    " Round 8: the table is a function of seed and collections alone - after an export with another seed or of a subset, for iterator / generator / tuple input, writer module reloaded for the reference; seed 0 (defect found and repaired, 15ec74d).",
    _NOTE, "DESIGN.md §3 C17")
CHECKS["C10"] = (
    _CH + ": the SCHEDULE of operations is the symbolic variable (real memoisation on, bodies run natively), plus one inductive step over lazy-slot states with symbolic coordinates",
    "H2: for location, sequence-bearing location, CDS, transcript, feature, gene, feature collection and annotation collection "
    "objects on whole-chromosome and chunk parents, EVERY schedule of 2 (quick) / 3 (thorough) operations from a 13-24 operation "
    "catalogue per class (incl. evicting the 1000-entry global Parent cache and using an unrelated twin) is closed by the solver: "
    "the last answer equals a fresh twin's in value AND type, and the object's snapshot (str, to_dict, hash, guid, blocks, qualifiers, "
    "children's dictionaries/qualifiers/blocks) is unchanged; reference answers come from a clean global Parent cache and a twin built after the "
    "schedule must agree with it (3-level hierarchies included). H1: with unbounded symbolic coordinates (overlapping/nested layouts included), "
    "after filling the hand-written lazy slots of a CompoundInterval every accessor answers as on an untouched twin."
    " Also: Parent objects (sequence/strand/location/ancestry shapes) and interval-level lift-over to different ancestor types in the schedule catalogues."
    " Round 7: class-level codon registry (a CDS with a refused / accepted middle codon answers the same every time; each path its own text); members asked before being adopted by a collection on another parent (in-place re-parenting; stale-memo finding F19 recorded with its exact region)."
    " Round 9: aggregates carrying identifier-named qualifiers (product, protein_id, feature_name) and an rRNA / tRNA collection with the feature-table export in the schedules.",
    _NOTE + " Histories longer than 3 operations and multi-threaded use are outside the claim.", "DESIGN.md §3 C10")
for _p in []:
    NOT_APPLICABLE[_p] = "check not built yet (build in progress; see DESIGN.md §3 for the planned solver-based check)"
NOT_APPLICABLE["C12"] = ("GenBank writer cannot emit a feature on the installed Biopython (SeqFeature(strand=) TypeError), the "
                         "parser needs the absent PyVCF module, and the oracle is third-party text parsing (Bio.SeqIO): nothing "
                         "of the property is reachable by symbolic execution of real code here")
