#!/bin/bash
# usage: try_patch.sh <patch.diff> <PROP> [only-regex] [tier]   run a check against /repo HEAD + patch in a scratch worktree (removed afterwards)
wt=$(mktemp -d /tmp/trypatch_XXXX); rmdir $wt
git -C /repo worktree add -q $wt HEAD && git -C $wt apply "$1" || { git -C /repo worktree remove --force $wt; exit 9; }
cd /verif; VERIF_REPO=$wt ./bin/check $2 ${4:-quick} --no-evidence ${3:+--only "$3"} 2>&1 | grep -v "^KNOWN-FINDING" | grep -E "violated|HARNESS|$2 (quick|thorough)" | cut -c1-330 | head -${TRY_LINES:-4}
git -C /repo worktree remove --force $wt
