#!/bin/bash
# Idempotent, offline bootstrap of the overlay venv used by every check:
#   /verif/.venv = fresh venv of /venv's interpreter + /venv's site-packages (repo deps) + /repo + crosshair-tool (wheelhouse)
set -e
ROOT="$(cd "$(dirname "$0")/.." && pwd)"
V="$ROOT/.venv"
LOCK="$ROOT/.env.lock"
exec 9>"$LOCK"
flock 9
if [ -x "$V/bin/python" ] && "$V/bin/python" -c "import crosshair, z3, cvc5, jsonschema, inscripta.biocantor" 2>/dev/null; then
  exit 0
fi
rm -rf "$V"
/venv/bin/python -m venv "$V"
SP=$("$V/bin/python" -c "import sysconfig; print(sysconfig.get_paths()['purelib'])")
printf '/venv/lib/python3.12/site-packages\n/repo\n' > "$SP/_verif_overlay.pth"
PIP_NO_INDEX=1 "$V/bin/pip" install -q --no-index --find-links /opt/veriftools/wheels crosshair-tool z3-solver cvc5 jsonschema >/dev/null
"$V/bin/python" -c "import crosshair, z3, inscripta.biocantor; print('overlay env ready: crosshair', crosshair.__version__, 'z3', z3.get_version_string())"
