"""Harness-side stubs S1..S11 (DESIGN.md §2.3). Installed ONLY in symbolic worker processes; nothing here touches /repo
on disk and the replayer never imports this module.

install(tokens=False, digest="const", bins="const", caches="bypass")
"""
import sys

from crosshair import core as _core
from crosshair.core_and_libs import standalone_statespace  # noqa: F401  (registers library models)
from crosshair.libimpl import builtinslib as _b
from crosshair.tracers import NoTracing, ResumedTracing

INSTALLED = {}
from vlib.tok import TOKENS, token_of, untok, has_token, reset_tokens  # noqa: F401,E402

REALIZED = [0]  # count of int realisations (diagnostic)
_state = {"tokens": False}


def install(tokens=False, digest="const", bins="const", caches="bypass"):
    if INSTALLED:
        return
    INSTALLED.update(dict(tokens=tokens, digest=digest, bins=bins, caches=caches))
    _state["tokens"] = tokens

    # ---- S11: no probabilistic short-circuiting: every call executes for real, exploration is deterministic
    def _no_shortcircuit(self, original):
        return original

    _core.ShortCircuitingContext.make_interceptor = _no_shortcircuit

    # ---- S1 / S8: formatting of symbolic non-string values
    _orig_format = _core._PATCH_REGISTRATIONS[format]

    def _srepr(obj, use_str=False):
        """rendering of containers/objects without handing symbolic members to C-level repr (S10)"""
        with NoTracing():
            sym = isinstance(obj, _b.SymbolicValue) and not isinstance(obj, _b.AnySymbolicStr)
            if sym:
                if _state["tokens"] and isinstance(obj, _b.SymbolicInt):
                    return token_of(obj)
                return "<sym>"
            t = type(obj)
        if t is list:
            return "[" + ", ".join([_srepr(x) for x in obj]) + "]"
        if t is tuple:
            return "(" + ", ".join([_srepr(x) for x in obj]) + ("," if len(obj) == 1 else "") + ")"
        return str(obj) if use_str else repr(obj)

    def _fmt_stub(obj, format_spec=""):
        with NoTracing():
            sym = isinstance(obj, _b.SymbolicValue) and not isinstance(obj, _b.AnySymbolicStr)
            if sym:
                if _state["tokens"] and isinstance(obj, _b.SymbolicInt):
                    return token_of(obj)
                return "<sym>"
            plain = isinstance(obj, (str, int, float, bool, type(None), _b.AnySymbolicStr))
        if not plain and format_spec == "":
            # user objects / containers: render through their own (traced) __str__ instead of deep-realising them
            return _srepr(obj, use_str=True)
        return _orig_format(obj, format_spec)

    # no premature realisation of int arguments (CrossHair heuristic; pure waste for exhaustive runs)
    from crosshair import statespace as _ss

    _orig_fork_parallel = _ss.StateSpace.fork_parallel

    def _fork_parallel(self, false_probability, desc=""):
        if desc.startswith("premature realize"):
            return False
        return _orig_fork_parallel(self, false_probability, desc)

    _ss.StateSpace.fork_parallel = _fork_parallel

    _core._PATCH_REGISTRATIONS[format] = _fmt_stub

    if tokens:

        def _tok_repr(self):
            with NoTracing():
                return token_of(self)

        _b.SymbolicInt.__repr__ = _tok_repr
        _b.SymbolicInt.__str__ = _tok_repr

    # ---- import order matters (circular imports inside biocantor)
    import inscripta.biocantor as _bc
    import inscripta.biocantor.location  # noqa: F401
    import inscripta.biocantor.parent.parent as _pp
    import inscripta.biocantor.gene.interval as _gi
    import inscripta.biocantor.util.hashing as _h
    import inscripta.biocantor.util.bins as _bins

    # ---- S2: truthiness = (len != 0) without realising the length
    def _loc_bool(self):
        return bool(self.__len__() != 0)

    _bc.AbstractLocation.__bool__ = _loc_bool

    def _seq_bool(self):
        return bool(self.__len__() != 0)

    _bc.AbstractSequence.__bool__ = _seq_bool

    def _iv_bool(self):
        return bool(self.__len__() != 0)

    _gi.AbstractInterval.__bool__ = _iv_bool

    # ---- S3: Bio.Seq.Seq constructed natively
    import Bio.Seq as _bs

    _SeqCls = _bs.Seq

    def _seq_native(*a, **kw):
        with NoTracing():
            return _SeqCls(*_core.deep_realize(a), **_core.deep_realize(kw))

    _core.register_patch(_SeqCls, _seq_native)

    # ---- S6: Parent's class-level lru_cache bypassed (CrossHair bypasses functools caches on functions; the class
    # decorator makes Parent itself a cache wrapper object)
    if caches == "bypass":
        _cached = _pp.Parent
        _raw = getattr(_cached, "__wrapped__", None)
        if _raw is not None:

            def _parent_nocache(*a, **kw):
                return _raw(*a, **kw)

            _core.register_patch(_cached, _parent_nocache)
    elif caches == "real":
        from functools import _lru_cache_wrapper

        _core._PATCH_REGISTRATIONS.pop(_lru_cache_wrapper.__call__, None)

    # ---- S4: digest
    if digest == "const":
        from uuid import UUID as _UUID

        def _digest_stub(*a, **kw):
            return _UUID(int=7)

        _core.register_patch(_h.digest_object, _digest_stub)

    # ---- S5: bins
    if bins == "const":

        def _bins_stub(*a, **kw):
            if kw.get("one", True) is False:
                return {1}
            return 1

        _core.register_patch(_bins.bins, _bins_stub)
    elif bins == "record":

        def _bins_record(start, stop, fmt="gff", one=True):
            return ("BIN", start, stop, fmt, one)

        _core.register_patch(_bins.bins, _bins_record)
    elif bins == "contract":
        from vlib import binstub

        _core.register_patch(_bins.bins, binstub.bins_contract)
    elif bins == "smt":
        from vlib import binstub

        binstub._encoder()  # translate now: an untranslatable bins() must fail the worker (inconclusive), not silently change the model
        _core.register_patch(_bins.bins, binstub.bins_smt)

    # ---- S12: unbound set.union(a, b, ...) on CrossHair's set shells (C descriptor rejects the shell): same semantics
    def _set_union(first, *others):
        out = set()
        for x in (first,) + others:
            for el in x:
                out.add(el)
        return out

    _core.register_patch(set.union, _set_union)

    # ---- S14: print() executes for real (CrossHair silences it; the writers under test print into StringIO handles)
    _core._PATCH_REGISTRATIONS.pop(print, None)

    # ---- S13: re.sub on (possibly symbolic) strings runs natively on realised arguments (CrossHair's own model of re.sub
    # recurses forever on patterns that match the empty string, e.g. tbl_writer's r"[\[\]\(\);]*")
    import re as _re

    _real_sub = _re.sub

    def _sub_native(pattern, repl, string, count=0, flags=0):
        with NoTracing():
            if callable(repl):
                realized_repl = repl
            else:
                realized_repl = _core.deep_realize(repl)
            return _real_sub(_core.deep_realize(pattern), realized_repl, _core.deep_realize(string), _core.deep_realize(count), _core.deep_realize(flags))

    _core.register_patch(_re.sub, _sub_native)

    # ---- diagnostic: count realisations of symbolic ints
    _orig_realize = _b.SymbolicInt.__ch_realize__

    def _counting_realize(self):
        REALIZED[0] += 1
        return _orig_realize(self)

    _b.SymbolicInt.__ch_realize__ = _counting_realize


def marshmallow_shim():
    """S7: only needed when inscripta.biocantor.io.models does not import (marshmallow 4 dropped `pass_many`)."""
    try:
        import inscripta.biocantor.io.models  # noqa: F401

        return False
    except TypeError:
        pass
    import marshmallow

    _pd = marshmallow.post_dump

    def post_dump(fn=None, pass_many=False, pass_original=False, **kw):
        return _pd(fn, pass_original=pass_original, **kw) if fn is not None else _pd(pass_original=pass_original, **kw)

    marshmallow.post_dump = post_dump
    for m in [m for m in sys.modules if m.startswith("inscripta.biocantor.io.models")]:
        del sys.modules[m]
    import inscripta.biocantor.io.models  # noqa: F401

    return True
