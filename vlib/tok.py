"""S8 side table for symbolic-token rendering. No crosshair dependency (harness modules import this; the plain
interpreter never produces tokens so untok() just parses ints there)."""
TOKENS = []


def token_of(obj):
    TOKENS.append(obj)
    return "⟦%d⟧" % (len(TOKENS) - 1)


def untok(field):
    """map a rendered field back to the value it was rendered from (int literal or token)"""
    field = field.strip()
    if field.startswith("⟦") and field.endswith("⟧") and field.count("⟦") == 1:
        return TOKENS[int(field[1:-1])]
    return int(field)


def has_token(s):
    return "⟦" in s


def reset_tokens():
    del TOKENS[:]
