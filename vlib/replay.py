"""Concrete replayer: runs obligation functions on the plain interpreter (/venv/bin/python, PYTHONPATH=/repo:/verif),
with NO CrossHair and NO stub: real digest, real bins, real caches, real formatting.
stdin: JSON list of {prop, tier, name, args}; stdout: one `REPLAY <json>` line per item."""
import importlib
import json
import os
import sys
import traceback

ROOT = os.path.dirname(os.path.dirname(os.path.abspath(__file__)))


def run_item(item, cache):
    prop, tier = item["prop"], item["tier"]
    key = (prop, tier)
    if key not in cache:
        mod = importlib.import_module("harness.%s" % prop.lower())
        cache[key] = {o.name: o for o in mod.obligations(tier)}
    o = cache[key][item["name"]]
    args = item["args"]
    out = dict(name=item["name"], args=args, pre=None, holds=None, exc=None)
    try:
        out["pre"] = bool(o.pre(**args)) if o.pre is not None else True
    except Exception as e:  # noqa
        out["pre"] = False
        out["exc"] = "pre raised %s: %s" % (type(e).__name__, e)
        return out
    if not out["pre"]:
        return out
    try:
        r = (o.concrete if o.kind == "smt" else o.fn)(**args)
        out["holds"] = bool(r)
    except Exception as e:  # noqa
        out["holds"] = False
        out["exc"] = "%s: %s" % (type(e).__name__, e)
        out["trace"] = traceback.format_exc()[-2500:]
        # an exception raised BY harness code itself (innermost frame under /verif, e.g. a NameError in an oracle) is a harness error, not a finding
        tb = traceback.extract_tb(e.__traceback__)
        if tb and os.path.abspath(tb[-1].filename).startswith(ROOT + os.sep) and isinstance(e, (NameError, ImportError)) \
                and not any("/inscripta/" in fr.filename for fr in tb):
            out["harness_error"] = True
    return out


def main():
    sys.setrecursionlimit(20000)
    assert "crosshair" not in sys.modules
    items = json.load(sys.stdin)
    cache = {}
    for it in items:
        try:
            res = run_item(it, cache)
        except Exception as e:  # noqa
            res = dict(name=it.get("name"), args=it.get("args"), pre=None, holds=None,
                       exc="replayer error %s: %s" % (type(e).__name__, e), trace=traceback.format_exc()[-2500:],
                       harness_error=True)
        sys.stdout.write("REPLAY " + json.dumps(res, default=str) + "\n")
        sys.stdout.flush()


if __name__ == "__main__":
    main()
