"""AST -> z3 translators for the few kernels CrossHair cannot keep symbolic. Regenerated from /repo's source at every
run; any AST node outside the supported subset raises EncodingError => the check is INCONCLUSIVE (never green).
"""
import ast
import inspect
import time

import z3


class EncodingError(Exception):
    pass


# ====================================================================================== bins()
class SymSet:
    """set = singletons + closed ranges [lo, hi] (symbolic); g* members are present only under their guard (results of merged paths)"""

    def __init__(self, singles=(), ranges=(), gsingles=(), granges=()):
        self.singles = list(singles)
        self.ranges = list(ranges)
        self.gsingles = list(gsingles)
        self.granges = list(granges)

    def contains(self, b):
        return z3.Or([b == s for s in self.singles] + [z3.And(lo <= b, b <= hi) for lo, hi in self.ranges]
                     + [z3.And(g, b == s) for g, s in self.gsingles] + [z3.And(g, lo <= b, b <= hi) for g, lo, hi in self.granges])

    def guarded(self, g):
        return SymSet(gsingles=[(g, s) for s in self.singles] + [(z3.And(g, g2), s) for g2, s in self.gsingles],
                      granges=[(g, lo, hi) for lo, hi in self.ranges] + [(z3.And(g, g2), lo, hi) for g2, lo, hi in self.granges])

    def union(self, other):
        return SymSet(self.singles + other.singles, self.ranges + other.ranges, self.gsingles + other.gsingles, self.granges + other.granges)


class MemoRef:
    """a module-level dict the function under translation WRITES to: a memo table"""

    def __init__(self, name):
        self.name = name


def _merge_results(paths):
    """[(pc, value)] of an inlined call -> one value: ITE over ints, guarded union over sets"""
    if not paths:
        raise EncodingError("inlined call returns on no path")
    if all(isinstance(v, SymSet) for _, v in paths):
        out = SymSet()
        for pc, v in paths:
            out = out.union(v.guarded(pc))
        return out
    if any(v is None or isinstance(v, (tuple, MemoRef)) for _, v in paths):
        raise EncodingError("inlined call mixes result kinds")
    # ints on some paths, a set on others (bins(one=True) falling through its loop): the set is represented by the NONINT marker, as in bin1()
    paths = [(pc, z3.IntVal(-777) if isinstance(v, SymSet) else v) for pc, v in paths]
    out = paths[-1][1]
    out = out if z3.is_expr(out) else z3.IntVal(out)
    for pc, v in reversed(paths[:-1]):
        out = z3.If(pc, v if z3.is_expr(v) else z3.IntVal(v), out)
    return out


def _tuple_eq(a, b):
    """equality of two keys (tuples of concrete values / z3 terms): python bool or z3 term"""
    if isinstance(a, tuple) != isinstance(b, tuple):
        return False
    if not isinstance(a, tuple):
        a, b = (a,), (b,)
    if len(a) != len(b):
        return False
    conds = []
    for x, y in zip(a, b):
        if z3.is_expr(x) or z3.is_expr(y):
            conds.append((x if z3.is_expr(x) else z3.IntVal(x)) == (y if z3.is_expr(y) else z3.IntVal(y)))
        elif x != y or type(x) is not type(y):
            return False
    return z3.And(conds) if conds else True


def _shr(x, k):
    # python >> on ints is floor division by 2**k; z3 Int `/` is euclidean division == floor for a positive divisor
    if isinstance(x, int) and isinstance(k, int):
        return x >> k
    if not isinstance(k, int) or k < 0:
        raise EncodingError("shift by non-constant")
    return x / (2 ** k)


class BinsEncoder:
    """symbolic interpreter for inscripta.biocantor.util.bins.bins"""

    def __init__(self):
        import inscripta.biocantor.util.bins as B

        self.B = B
        self.src = inspect.getsource(B.bins)
        mod = ast.parse(self.src)
        self.fn = mod.body[0]
        if not isinstance(self.fn, ast.FunctionDef):
            raise EncodingError("bins is not a plain function")
        argn = [a.arg for a in self.fn.args.args]
        if argn != ["start", "stop", "fmt", "one"]:
            raise EncodingError("unexpected signature %s" % argn)
        self.const = {}
        for k in ("NEXT_SHIFT", "FIRST_SHIFT", "OFFSETS", "COORD_OFFSETS", "MAX_CHROM_SIZE"):
            if not hasattr(B, k):
                raise EncodingError("missing module constant " + k)
            self.const[k] = getattr(B, k)
        self.nodes = 0
        self.side_conditions = []
        self._pc = []
        # helper functions of the same module are inlined; module-level dicts the code WRITES to are memo tables
        self.helpers = {}
        self.memo_names = set()
        self._scan(self.fn, set())
        self.mode = "plain"
        self.stores = []  # producer mode: (pc list, key, value) of every memo write
        self.producer_stores = []  # consumer mode: what earlier calls may have left in the memo table
        self.memo_calls = []  # [{start, stop (z3 consts), fmt, one}] the hypothetical earlier calls (free variables of every query)
        self._n = 0

    def _scan(self, fn, seen):
        for node in ast.walk(fn):
            if isinstance(node, ast.Call) and isinstance(node.func, ast.Name):
                name = node.func.id
                obj = getattr(self.B, name, None)
                if inspect.isfunction(obj) and obj.__module__ == self.B.__name__ and name not in seen and name != self.fn.name:
                    seen.add(name)
                    fd = ast.parse(inspect.getsource(obj)).body[0]
                    if fd.args.kwonlyargs or fd.args.vararg or fd.args.kwarg:
                        raise EncodingError("helper %s has an unsupported signature" % name)
                    self.helpers[name] = fd
                    self._scan(fd, seen)
            tgt = None
            if isinstance(node, ast.Assign) and len(node.targets) == 1 and isinstance(node.targets[0], ast.Subscript):
                tgt = node.targets[0].value
            if isinstance(tgt, ast.Name) and isinstance(getattr(self.B, tgt.id, None), dict):
                self.memo_names.add(tgt.id)

    @property
    def has_memo(self):
        return bool(self.memo_names)

    # ---- expression evaluation
    def ev(self, node, env):
        self.nodes += 1
        if isinstance(node, ast.Constant):
            return node.value
        if isinstance(node, ast.Name):
            if node.id in env:
                return env[node.id]
            if node.id in self.memo_names:
                return MemoRef(node.id)
            if node.id in self.const:
                return self.const[node.id]
            if isinstance(getattr(self.B, node.id, None), (int, bool, str, tuple)) and not node.id.startswith("__"):
                return getattr(self.B, node.id)  # other module-level constants
            raise EncodingError("unknown name " + node.id)
        if isinstance(node, ast.Tuple):
            return tuple(self.ev(e, env) for e in node.elts)
        if isinstance(node, ast.BinOp):
            l, r = self.ev(node.left, env), self.ev(node.right, env)
            if isinstance(node.op, ast.RShift):
                return _shr(l, r)
            if isinstance(node.op, ast.Sub):
                return l - r
            if isinstance(node.op, ast.Add):
                return l + r
            if isinstance(node.op, ast.Pow) and isinstance(l, int) and isinstance(r, int):
                return l ** r
            if isinstance(node.op, ast.Mult) and (isinstance(l, int) or isinstance(r, int)):
                return l * r
            if isinstance(node.op, ast.LShift) and isinstance(r, int) and r >= 0:
                return l * (2 ** r)
            if isinstance(node.op, ast.FloorDiv) and isinstance(r, int) and r > 0:
                return (l // r) if isinstance(l, int) else (l / r)
            if isinstance(node.op, ast.Mod) and isinstance(r, int) and r > 0:
                return l % r
            if isinstance(node.op, ast.BitAnd) and isinstance(r, int) and r >= 0 and (r & (r + 1)) == 0:
                return l % (r + 1)  # x & (2^k - 1) == x mod 2^k (python semantics for negative x too)
            raise EncodingError("binop " + ast.dump(node.op))
        if isinstance(node, ast.IfExp):
            c = self.ev(node.test, env)
            if isinstance(c, bool):
                return self.ev(node.body if c else node.orelse, env)  # (only the branch taken is evaluated, as in Python)
            a, b = self.ev(node.body, env), self.ev(node.orelse, env)
            if isinstance(a, SymSet) or isinstance(b, SymSet):
                raise EncodingError("conditional set expression")
            a = a if z3.is_expr(a) else z3.IntVal(a)
            b = b if z3.is_expr(b) else z3.IntVal(b)
            return z3.If(c, a, b)
        if isinstance(node, ast.Call):
            f = node.func
            args = [self.ev(a, env) for a in node.args]
            if node.keywords:
                raise EncodingError("call with keywords")
            if isinstance(f, ast.Name) and f.id in ("min", "max") and len(args) >= 2:
                out = args[0]
                for a in args[1:]:
                    if isinstance(out, int) and isinstance(a, int):
                        out = min(out, a) if f.id == "min" else max(out, a)
                    else:
                        o2 = out if z3.is_expr(out) else z3.IntVal(out)
                        a2 = a if z3.is_expr(a) else z3.IntVal(a)
                        out = z3.If(a2 < o2, a2, o2) if f.id == "min" else z3.If(a2 > o2, a2, o2)
                return out
            if isinstance(f, ast.Name) and f.id == "abs" and len(args) == 1:
                a = args[0]
                return abs(a) if isinstance(a, int) else z3.If(a < 0, -a, a)
            if isinstance(f, ast.Name) and f.id == "int" and len(args) == 1:
                return args[0]
            if isinstance(f, ast.Name) and f.id in ("set", "frozenset") and len(args) == 1 and isinstance(args[0], SymSet):
                return args[0]
            if isinstance(f, ast.Name) and f.id == "len" and len(args) == 1 and isinstance(args[0], MemoRef):
                self._n += 1
                return z3.Int("memo_len_%d" % self._n)  # size of the memo table: unconstrained
            if isinstance(f, ast.Name) and f.id in self.helpers:
                fd = self.helpers[f.id]
                names = [a.arg for a in fd.args.args]
                if len(args) != len(names):
                    raise EncodingError("helper call arity")
                sub = []
                caller_pc = list(self._pc)
                rest = self.block(fd.body, dict(zip(names, args)), caller_pc, sub)
                self._pc = caller_pc
                if rest:
                    raise EncodingError("helper can fall off its end")
                return _merge_results(sub)
            if isinstance(f, ast.Attribute) and f.attr == "bit_length" and not args:
                x = self.ev(f.value, env)
                if isinstance(x, int):
                    return x.bit_length()
                ax = z3.If(x < 0, -x, x)
                # exact for |x| < 2^64; the side condition is recorded and must be implied by the query's assumptions
                self.side_conditions.append(z3.Implies(z3.And(self._pc) if self._pc else z3.BoolVal(True), ax < 2 ** 64))
                out = z3.IntVal(64)
                for k in range(63, -1, -1):
                    out = z3.If(ax < 2 ** k, z3.IntVal(k), out)
                return out
            raise EncodingError("call " + ast.dump(f)[:80])
        if isinstance(node, ast.UnaryOp) and isinstance(node.op, ast.Not):
            v = self.ev(node.operand, env)
            return (not v) if isinstance(v, bool) else z3.Not(v)
        if isinstance(node, ast.UnaryOp) and isinstance(node.op, ast.USub):
            return -self.ev(node.operand, env)
        if isinstance(node, ast.Subscript):
            base, idx = self.ev(node.value, env), self.ev(node.slice, env)
            if isinstance(base, MemoRef):
                hit = env.get("$hit:" + base.name)
                if hit is None:
                    raise EncodingError("memo table read outside a membership test")
                return hit
            if z3.is_expr(base):
                raise EncodingError("symbolic subscript base")
            if z3.is_expr(idx):
                if not isinstance(base, (list, tuple)) or not all(isinstance(v, int) for v in base):
                    raise EncodingError("symbolic subscript into non-int sequence")
                # in-range index is a side condition (python would raise IndexError / wrap negative indexes)
                self.side_conditions.append(z3.Implies(z3.And(self._pc) if self._pc else z3.BoolVal(True), z3.And(idx >= 0, idx < len(base))))
                out = z3.IntVal(base[-1])
                for i in range(len(base) - 2, -1, -1):
                    out = z3.If(idx == i, z3.IntVal(base[i]), out)
                return out
            return base[idx]
        if isinstance(node, ast.Set):
            return SymSet(singles=[self.ev(e, env) for e in node.elts])
        if isinstance(node, ast.Compare) and len(node.ops) == 1 and isinstance(node.ops[0], (ast.Is, ast.IsNot)):
            l, r = self.ev(node.left, env), self.ev(node.comparators[0], env)
            if r is not None:
                raise EncodingError("identity test against a non-None value")
            return (l is None) if isinstance(node.ops[0], ast.Is) else (l is not None)
        if isinstance(node, ast.Compare) and len(node.ops) == 1:
            l, r = self.ev(node.left, env), self.ev(node.comparators[0], env)
            op = node.ops[0]
            if isinstance(l, tuple) or isinstance(r, tuple):
                if isinstance(op, (ast.Eq, ast.NotEq)):
                    eq = _tuple_eq(l, r)
                    return eq if isinstance(op, ast.Eq) else ((not eq) if isinstance(eq, bool) else z3.Not(eq))
                raise EncodingError("ordering of tuples")
            table = {ast.GtE: lambda a, b: a >= b, ast.Gt: lambda a, b: a > b, ast.Lt: lambda a, b: a < b,
                     ast.LtE: lambda a, b: a <= b, ast.Eq: lambda a, b: a == b, ast.NotEq: lambda a, b: a != b}
            for t, f in table.items():
                if isinstance(op, t):
                    return f(l, r)
            raise EncodingError("compare " + ast.dump(op))
        if isinstance(node, ast.BoolOp):
            vals = [self.ev(v, env) for v in node.values]
            if all(isinstance(v, bool) for v in vals):
                return all(vals) if isinstance(node.op, ast.And) else any(vals)
            vals = [z3.BoolVal(v) if isinstance(v, bool) else v for v in vals]
            return z3.And(vals) if isinstance(node.op, ast.And) else z3.Or(vals)
        raise EncodingError("expr " + ast.dump(node)[:120])

    def block(self, stmts, env, pc, results):
        """returns [(env, pc)] of states falling through; states that executed break/continue carry env['$ctl']"""
        states = [(env, pc)]
        for st in stmts:
            nxt = []
            for env2, pc2 in states:
                if env2.get("$ctl"):
                    nxt.append((env2, pc2))
                else:
                    nxt.extend(self.stmt(st, env2, pc2, results))
            states = nxt
        return states

    def stmt(self, st, env, pc, results):
        self.nodes += 1
        self._pc = pc
        if isinstance(st, ast.Expr) and isinstance(st.value, ast.Constant):
            return [(env, pc)]  # docstring
        if isinstance(st, ast.Pass):
            return [(env, pc)]
        if isinstance(st, (ast.Break, ast.Continue)):
            e = dict(env)
            e["$ctl"] = "break" if isinstance(st, ast.Break) else "continue"
            return [(e, pc)]
        if isinstance(st, ast.Return):
            results.append((z3.And(pc) if pc else z3.BoolVal(True), self.ev(st.value, env)))
            return []
        # memo table: X[key] = value
        if isinstance(st, ast.Assign) and len(st.targets) == 1 and isinstance(st.targets[0], ast.Subscript) and \
                isinstance(st.targets[0].value, ast.Name) and st.targets[0].value.id in self.memo_names:
            key, val = self.ev(st.targets[0].slice, env), self.ev(st.value, env)
            if self.mode == "producer":
                self.stores.append((list(pc), key, val))
            return [(env, pc)]
        # memo table: v = X.get(key)
        if isinstance(st, ast.Assign) and len(st.targets) == 1 and isinstance(st.targets[0], ast.Name) and isinstance(st.value, ast.Call) and \
                isinstance(st.value.func, ast.Attribute) and st.value.func.attr == "get" and isinstance(st.value.func.value, ast.Name) and \
                st.value.func.value.id in self.memo_names and len(st.value.args) == 1 and not st.value.keywords:
            key = self.ev(st.value.args[0], env)
            out = []
            miss = dict(env)
            miss[st.targets[0].id] = None
            out.append((miss, pc))
            for hit_cond, val in self._hits(key):
                e = dict(env)
                e[st.targets[0].id] = val
                out.append((e, pc + hit_cond))
            return out
        # memo table: X.clear() / X.pop(...) only remove entries: ignored (the model already allows any subset of earlier entries)
        if isinstance(st, ast.Expr) and isinstance(st.value, ast.Call) and isinstance(st.value.func, ast.Attribute) and \
                isinstance(st.value.func.value, ast.Name) and st.value.func.value.id in self.memo_names and st.value.func.attr in ("clear", "pop", "popitem"):
            return [(env, pc)]
        if isinstance(st, ast.Assign) and len(st.targets) == 1 and isinstance(st.targets[0], ast.Name):
            e = dict(env)
            e[st.targets[0].id] = self.ev(st.value, env)
            return [(e, pc)]
        if isinstance(st, ast.AugAssign) and isinstance(st.target, ast.Name):
            e = dict(env)
            cur, v = env[st.target.id], self.ev(st.value, env)
            if isinstance(st.op, ast.RShift):
                e[st.target.id] = _shr(cur, v)
            elif isinstance(st.op, ast.Add):
                e[st.target.id] = cur + v
            elif isinstance(st.op, ast.Sub):
                e[st.target.id] = cur - v
            else:
                raise EncodingError("augassign " + ast.dump(st.op))
            return [(e, pc)]
        # memo table: if key in X: ... X[key] ...
        if isinstance(st, ast.If) and isinstance(st.test, ast.Compare) and len(st.test.ops) == 1 and isinstance(st.test.ops[0], (ast.In, ast.NotIn)) and \
                isinstance(st.test.comparators[0], ast.Name) and st.test.comparators[0].id in self.memo_names:
            name = st.test.comparators[0].id
            key = self.ev(st.test.left, env)
            hit_body, miss_body = (st.body, st.orelse) if isinstance(st.test.ops[0], ast.In) else (st.orelse, st.body)
            out = self.block(miss_body, env, pc, results)
            for hit_cond, val in self._hits(key):
                e = dict(env)
                e["$hit:" + name] = val
                for e2, pc2 in self.block(hit_body, e, pc + hit_cond, results):
                    e2 = dict(e2)
                    e2.pop("$hit:" + name, None)
                    out.append((e2, pc2))
            return out
        if isinstance(st, ast.If):
            c = self.ev(st.test, env)
            if c is None:
                c = False
            if isinstance(c, SymSet):
                raise EncodingError("truthiness of set")
            if isinstance(c, bool):
                return self.block(st.body if c else st.orelse, env, pc, results)
            if isinstance(c, int):
                return self.block(st.body if c else st.orelse, env, pc, results)
            if z3.is_int(c):
                c = c != 0
            return self.block(st.body, env, pc + [c], results) + self.block(st.orelse, env, pc + [z3.Not(c)], results)
        if isinstance(st, ast.For) and isinstance(st.target, ast.Name) and not st.orelse:
            it = self.ev(st.iter, env)
            if not isinstance(it, (list, tuple)):
                raise EncodingError("for over non-constant iterable")
            states = [(env, pc)]
            done = []
            for v in it:
                nxt = []
                for env2, pc2 in states:
                    e = dict(env2)
                    e[st.target.id] = v
                    for e3, pc3 in self.block(st.body, e, pc2, results):
                        ctl = e3.get("$ctl")
                        if ctl:
                            e3 = dict(e3)
                            del e3["$ctl"]
                        (done if ctl == "break" else nxt).append((e3, pc3))
                states = nxt
            return states + done
        # <set>.update(list(range(a, b)))  /  <set>.update(range(a, b))
        if (isinstance(st, ast.Expr) and isinstance(st.value, ast.Call) and isinstance(st.value.func, ast.Attribute)
                and st.value.func.attr == "update" and isinstance(st.value.func.value, ast.Name)):
            tgt = st.value.func.value.id
            if len(st.value.args) != 1:
                raise EncodingError("update arity")
            arg = st.value.args[0]
            if isinstance(arg, ast.Call) and isinstance(arg.func, ast.Name) and arg.func.id == "list" and len(arg.args) == 1:
                arg = arg.args[0]
            if not (isinstance(arg, ast.Call) and isinstance(arg.func, ast.Name) and arg.func.id == "range"
                    and len(arg.args) == 2):
                raise EncodingError("update argument is not range(a, b)")
            lo, hi = self.ev(arg.args[0], env), self.ev(arg.args[1], env)
            e = dict(env)
            s = env[tgt]
            if not isinstance(s, SymSet):
                raise EncodingError("update on non-set")
            e[tgt] = SymSet(s.singles, s.ranges + [(lo, hi - 1)])
            return [(e, pc)]
        raise EncodingError("stmt " + ast.dump(st)[:160])

    def _hits(self, key):
        """possible memo hits for `key`: [(extra path conditions, stored value)] over everything earlier calls may have stored"""
        out = []
        if self.mode != "consumer":
            return out  # the hypothetical earlier calls start from an empty table (stored values always come from miss paths)
        for pcs, k2, val in self.producer_stores:
            eq = _tuple_eq(key, k2)
            if eq is False:
                continue
            out.append((list(pcs) + ([] if eq is True else [eq]), val))
        return out

    def _run_once(self, start, stop, fmt, one):
        results = []
        env = {"start": start, "stop": stop, "fmt": fmt, "one": one}
        rest = self.block(self.fn.body, env, [], results)
        if rest:
            raise EncodingError("function can fall off its end")
        return results

    def run(self, start, stop, fmt, one):
        """without a memo table: the paths of one call. With one: the call is preceded by ARBITRARY earlier calls - one hypothetical earlier call
        per (fmt, one) combination with free integer arguments (memo_calls); a lookup may miss or hit anything such a call stored under an equal key.
        Unsat queries therefore hold for every call history, and a model names the earlier call that poisons the table."""
        if not self.has_memo or self.mode == "fresh":
            return self._run_once(start, stop, fmt, one)
        stores = []
        for pf in ("bed", "gff"):
            for po in (True, False):
                self._n += 1
                ps, pe = z3.Int("memo%d_start" % self._n), z3.Int("memo%d_stop" % self._n)
                self.mode, self.stores = "producer", []
                self._run_once(ps, pe, pf, po)
                stores += self.stores
                self.memo_calls.append(dict(start=ps, stop=pe, fmt=pf, one=po))
        self.mode, self.producer_stores = "consumer", stores
        try:
            return self._run_once(start, stop, fmt, one)
        finally:
            self.mode = "plain"

    def bin1(self, start, stop, fmt="bed"):
        """ITE term of the one=True result; NONINT marks a path that returned a set"""
        paths = self.run(start, stop, fmt, True)
        out = z3.IntVal(-777)
        for pc, r in reversed(paths):
            if isinstance(r, SymSet):
                r = z3.IntVal(-777)
            r = r if z3.is_expr(r) else z3.IntVal(r)
            out = z3.If(pc, r, out)
        return out

    def inbins(self, b, start, stop, fmt="bed"):
        """membership predicate of the one=False result"""
        paths = self.run(start, stop, fmt, False)
        terms = []
        for pc, r in paths:
            if not isinstance(r, SymSet):
                raise EncodingError("one=False returned a non-set")
            terms.append(z3.And(pc, r.contains(b)))
        return z3.Or(terms)


# ====================================================================================== solving helpers
class Query:
    """one negated-property query, decided by z3 and cross-checked by cvc5 (wheel) when available"""

    def __init__(self, name, assertions, vars_, timeout_ms=60000, memo_calls=()):
        self.name, self.assertions, self.vars, self.timeout_ms, self.memo_calls = name, assertions, vars_, timeout_ms, list(memo_calls)

    def solve(self, cross=True):
        t0 = time.time()
        s = z3.Solver()
        s.set("timeout", self.timeout_ms)
        s.add(*self.assertions)
        r = s.check()
        out = dict(name=self.name, z3=str(r), model=None, z3_s=round(time.time() - t0, 3))
        if r == z3.sat:
            m = s.model()
            out["model"] = {str(v): m.eval(v, model_completion=True).as_long() for v in self.vars}
            if self.memo_calls:
                # the earlier calls of the model (only those the model actually constrains), replayed before the call under test
                used = {str(d) for d in m.decls()}
                out["model"]["memo"] = [dict(start=m.eval(c["start"], model_completion=True).as_long(), stop=m.eval(c["stop"], model_completion=True).as_long(),
                                             fmt=c["fmt"], one=c["one"]) for c in self.memo_calls if str(c["start"]) in used or str(c["stop"]) in used]
        if cross:
            out["cvc5"] = cvc5_check(s.to_smt2(), self.timeout_ms)
        return out


def cvc5_check(smt2, timeout_ms=60000):
    try:
        import cvc5
    except Exception:
        return "unavailable"
    try:
        slv = cvc5.Solver()
        slv.setOption("tlimit-per", str(timeout_ms))
        slv.setLogic("ALL")
        p = cvc5.InputParser(slv)
        p.setStringInput(cvc5.InputLanguage.SMT_LIB_2_6, smt2, "q")
        sm = p.getSymbolManager()
        last = ""
        while True:
            cmd = p.nextCommand()
            if cmd.isNull():
                break
            r = cmd.invoke(slv, sm)
            if str(r).strip():
                last = str(r).strip()
        return last or "none"
    except Exception as e:  # noqa
        return "error:%s" % type(e).__name__


def cvc5_string_query(smt2, timeout_ms=120000):
    """decide a string query with cvc5 (strings-exp); returns (verdict, model dict name->str value when sat)"""
    import re

    try:
        import cvc5
    except Exception:
        return "unavailable", {}
    try:
        slv = cvc5.Solver()
        slv.setOption("tlimit-per", str(timeout_ms))
        slv.setOption("produce-models", "true")
        slv.setOption("strings-exp", "true")
        slv.setLogic("ALL")
        p = cvc5.InputParser(slv)
        p.setStringInput(cvc5.InputLanguage.SMT_LIB_2_6, smt2 + "\n(get-model)\n", "q")
        sm = p.getSymbolManager()
        verdict, model = "none", {}
        while True:
            cmd = p.nextCommand()
            if cmd.isNull():
                break
            try:
                r = str(cmd.invoke(slv, sm)).strip()
            except Exception:  # noqa  (get-model after unsat)
                continue
            if r in ("sat", "unsat", "unknown"):
                verdict = r
            elif r.startswith("("):
                for m in re.finditer(r'\(define-fun (\S+) \(\) String "([^"]*)"\)', r):
                    model[m.group(1)] = m.group(2)
        return verdict, model
    except Exception as e:  # noqa
        return "error:%s" % type(e).__name__, {}
