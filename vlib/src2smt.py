"""AST -> z3 translators for the few kernels CrossHair cannot keep symbolic. Regenerated from /repo's source at every
run; any AST node outside the supported subset raises EncodingError => the check is INCONCLUSIVE (never green).
"""
import ast
import inspect
import time

import z3


class EncodingError(Exception):
    pass


# ====================================================================================== bins()
class SymSet:
    """set = singletons + closed ranges [lo, hi] (symbolic)"""

    def __init__(self, singles=(), ranges=()):
        self.singles = list(singles)
        self.ranges = list(ranges)

    def contains(self, b):
        return z3.Or([b == s for s in self.singles] + [z3.And(lo <= b, b <= hi) for lo, hi in self.ranges])


def _shr(x, k):
    # python >> on ints is floor division by 2**k; z3 Int `/` is euclidean division == floor for a positive divisor
    if isinstance(x, int) and isinstance(k, int):
        return x >> k
    if not isinstance(k, int) or k < 0:
        raise EncodingError("shift by non-constant")
    return x / (2 ** k)


class BinsEncoder:
    """symbolic interpreter for inscripta.biocantor.util.bins.bins"""

    def __init__(self):
        import inscripta.biocantor.util.bins as B

        self.B = B
        self.src = inspect.getsource(B.bins)
        mod = ast.parse(self.src)
        self.fn = mod.body[0]
        if not isinstance(self.fn, ast.FunctionDef):
            raise EncodingError("bins is not a plain function")
        argn = [a.arg for a in self.fn.args.args]
        if argn != ["start", "stop", "fmt", "one"]:
            raise EncodingError("unexpected signature %s" % argn)
        self.const = {}
        for k in ("NEXT_SHIFT", "FIRST_SHIFT", "OFFSETS", "COORD_OFFSETS", "MAX_CHROM_SIZE"):
            if not hasattr(B, k):
                raise EncodingError("missing module constant " + k)
            self.const[k] = getattr(B, k)
        self.nodes = 0
        self.side_conditions = []
        self._pc = []

    # ---- expression evaluation
    def ev(self, node, env):
        self.nodes += 1
        if isinstance(node, ast.Constant):
            return node.value
        if isinstance(node, ast.Name):
            if node.id in env:
                return env[node.id]
            if node.id in self.const:
                return self.const[node.id]
            raise EncodingError("unknown name " + node.id)
        if isinstance(node, ast.BinOp):
            l, r = self.ev(node.left, env), self.ev(node.right, env)
            if isinstance(node.op, ast.RShift):
                return _shr(l, r)
            if isinstance(node.op, ast.Sub):
                return l - r
            if isinstance(node.op, ast.Add):
                return l + r
            if isinstance(node.op, ast.Pow) and isinstance(l, int) and isinstance(r, int):
                return l ** r
            if isinstance(node.op, ast.Mult) and (isinstance(l, int) or isinstance(r, int)):
                return l * r
            if isinstance(node.op, ast.LShift) and isinstance(r, int) and r >= 0:
                return l * (2 ** r)
            if isinstance(node.op, ast.FloorDiv) and isinstance(r, int) and r > 0:
                return (l // r) if isinstance(l, int) else (l / r)
            if isinstance(node.op, ast.Mod) and isinstance(r, int) and r > 0:
                return l % r
            if isinstance(node.op, ast.BitAnd) and isinstance(r, int) and r >= 0 and (r & (r + 1)) == 0:
                return l % (r + 1)  # x & (2^k - 1) == x mod 2^k (python semantics for negative x too)
            raise EncodingError("binop " + ast.dump(node.op))
        if isinstance(node, ast.IfExp):
            c = self.ev(node.test, env)
            a, b = self.ev(node.body, env), self.ev(node.orelse, env)
            if isinstance(c, bool):
                return a if c else b
            if isinstance(a, SymSet) or isinstance(b, SymSet):
                raise EncodingError("conditional set expression")
            a = a if z3.is_expr(a) else z3.IntVal(a)
            b = b if z3.is_expr(b) else z3.IntVal(b)
            return z3.If(c, a, b)
        if isinstance(node, ast.Call):
            f = node.func
            args = [self.ev(a, env) for a in node.args]
            if node.keywords:
                raise EncodingError("call with keywords")
            if isinstance(f, ast.Name) and f.id in ("min", "max") and len(args) >= 2:
                out = args[0]
                for a in args[1:]:
                    if isinstance(out, int) and isinstance(a, int):
                        out = min(out, a) if f.id == "min" else max(out, a)
                    else:
                        o2 = out if z3.is_expr(out) else z3.IntVal(out)
                        a2 = a if z3.is_expr(a) else z3.IntVal(a)
                        out = z3.If(a2 < o2, a2, o2) if f.id == "min" else z3.If(a2 > o2, a2, o2)
                return out
            if isinstance(f, ast.Name) and f.id == "abs" and len(args) == 1:
                a = args[0]
                return abs(a) if isinstance(a, int) else z3.If(a < 0, -a, a)
            if isinstance(f, ast.Name) and f.id == "int" and len(args) == 1:
                return args[0]
            if isinstance(f, ast.Attribute) and f.attr == "bit_length" and not args:
                x = self.ev(f.value, env)
                if isinstance(x, int):
                    return x.bit_length()
                ax = z3.If(x < 0, -x, x)
                # exact for |x| < 2^64; the side condition is recorded and must be implied by the query's assumptions
                self.side_conditions.append(z3.Implies(z3.And(self._pc) if self._pc else z3.BoolVal(True), ax < 2 ** 64))
                out = z3.IntVal(64)
                for k in range(63, -1, -1):
                    out = z3.If(ax < 2 ** k, z3.IntVal(k), out)
                return out
            raise EncodingError("call " + ast.dump(f)[:80])
        if isinstance(node, ast.UnaryOp) and isinstance(node.op, ast.Not):
            v = self.ev(node.operand, env)
            return (not v) if isinstance(v, bool) else z3.Not(v)
        if isinstance(node, ast.UnaryOp) and isinstance(node.op, ast.USub):
            return -self.ev(node.operand, env)
        if isinstance(node, ast.Subscript):
            base, idx = self.ev(node.value, env), self.ev(node.slice, env)
            if z3.is_expr(base):
                raise EncodingError("symbolic subscript base")
            if z3.is_expr(idx):
                if not isinstance(base, (list, tuple)) or not all(isinstance(v, int) for v in base):
                    raise EncodingError("symbolic subscript into non-int sequence")
                # in-range index is a side condition (python would raise IndexError / wrap negative indexes)
                self.side_conditions.append(z3.Implies(z3.And(self._pc) if self._pc else z3.BoolVal(True), z3.And(idx >= 0, idx < len(base))))
                out = z3.IntVal(base[-1])
                for i in range(len(base) - 2, -1, -1):
                    out = z3.If(idx == i, z3.IntVal(base[i]), out)
                return out
            return base[idx]
        if isinstance(node, ast.Set):
            return SymSet(singles=[self.ev(e, env) for e in node.elts])
        if isinstance(node, ast.Compare) and len(node.ops) == 1:
            l, r = self.ev(node.left, env), self.ev(node.comparators[0], env)
            op = node.ops[0]
            table = {ast.GtE: lambda a, b: a >= b, ast.Gt: lambda a, b: a > b, ast.Lt: lambda a, b: a < b,
                     ast.LtE: lambda a, b: a <= b, ast.Eq: lambda a, b: a == b, ast.NotEq: lambda a, b: a != b}
            for t, f in table.items():
                if isinstance(op, t):
                    return f(l, r)
            raise EncodingError("compare " + ast.dump(op))
        if isinstance(node, ast.BoolOp):
            vals = [self.ev(v, env) for v in node.values]
            if all(isinstance(v, bool) for v in vals):
                return all(vals) if isinstance(node.op, ast.And) else any(vals)
            vals = [z3.BoolVal(v) if isinstance(v, bool) else v for v in vals]
            return z3.And(vals) if isinstance(node.op, ast.And) else z3.Or(vals)
        raise EncodingError("expr " + ast.dump(node)[:120])

    def block(self, stmts, env, pc, results):
        """returns [(env, pc)] of states falling through; states that executed break/continue carry env['$ctl']"""
        states = [(env, pc)]
        for st in stmts:
            nxt = []
            for env2, pc2 in states:
                if env2.get("$ctl"):
                    nxt.append((env2, pc2))
                else:
                    nxt.extend(self.stmt(st, env2, pc2, results))
            states = nxt
        return states

    def stmt(self, st, env, pc, results):
        self.nodes += 1
        self._pc = pc
        if isinstance(st, ast.Expr) and isinstance(st.value, ast.Constant):
            return [(env, pc)]  # docstring
        if isinstance(st, ast.Pass):
            return [(env, pc)]
        if isinstance(st, (ast.Break, ast.Continue)):
            e = dict(env)
            e["$ctl"] = "break" if isinstance(st, ast.Break) else "continue"
            return [(e, pc)]
        if isinstance(st, ast.Return):
            results.append((z3.And(pc) if pc else z3.BoolVal(True), self.ev(st.value, env)))
            return []
        if isinstance(st, ast.Assign) and len(st.targets) == 1 and isinstance(st.targets[0], ast.Name):
            e = dict(env)
            e[st.targets[0].id] = self.ev(st.value, env)
            return [(e, pc)]
        if isinstance(st, ast.AugAssign) and isinstance(st.target, ast.Name):
            e = dict(env)
            cur, v = env[st.target.id], self.ev(st.value, env)
            if isinstance(st.op, ast.RShift):
                e[st.target.id] = _shr(cur, v)
            elif isinstance(st.op, ast.Add):
                e[st.target.id] = cur + v
            elif isinstance(st.op, ast.Sub):
                e[st.target.id] = cur - v
            else:
                raise EncodingError("augassign " + ast.dump(st.op))
            return [(e, pc)]
        if isinstance(st, ast.If):
            c = self.ev(st.test, env)
            if isinstance(c, SymSet):
                raise EncodingError("truthiness of set")
            if isinstance(c, bool):
                return self.block(st.body if c else st.orelse, env, pc, results)
            if isinstance(c, int):
                return self.block(st.body if c else st.orelse, env, pc, results)
            if z3.is_int(c):
                c = c != 0
            return self.block(st.body, env, pc + [c], results) + self.block(st.orelse, env, pc + [z3.Not(c)], results)
        if isinstance(st, ast.For) and isinstance(st.target, ast.Name) and not st.orelse:
            it = self.ev(st.iter, env)
            if not isinstance(it, (list, tuple)):
                raise EncodingError("for over non-constant iterable")
            states = [(env, pc)]
            done = []
            for v in it:
                nxt = []
                for env2, pc2 in states:
                    e = dict(env2)
                    e[st.target.id] = v
                    for e3, pc3 in self.block(st.body, e, pc2, results):
                        ctl = e3.get("$ctl")
                        if ctl:
                            e3 = dict(e3)
                            del e3["$ctl"]
                        (done if ctl == "break" else nxt).append((e3, pc3))
                states = nxt
            return states + done
        # <set>.update(list(range(a, b)))  /  <set>.update(range(a, b))
        if (isinstance(st, ast.Expr) and isinstance(st.value, ast.Call) and isinstance(st.value.func, ast.Attribute)
                and st.value.func.attr == "update" and isinstance(st.value.func.value, ast.Name)):
            tgt = st.value.func.value.id
            if len(st.value.args) != 1:
                raise EncodingError("update arity")
            arg = st.value.args[0]
            if isinstance(arg, ast.Call) and isinstance(arg.func, ast.Name) and arg.func.id == "list" and len(arg.args) == 1:
                arg = arg.args[0]
            if not (isinstance(arg, ast.Call) and isinstance(arg.func, ast.Name) and arg.func.id == "range"
                    and len(arg.args) == 2):
                raise EncodingError("update argument is not range(a, b)")
            lo, hi = self.ev(arg.args[0], env), self.ev(arg.args[1], env)
            e = dict(env)
            s = env[tgt]
            if not isinstance(s, SymSet):
                raise EncodingError("update on non-set")
            e[tgt] = SymSet(s.singles, s.ranges + [(lo, hi - 1)])
            return [(e, pc)]
        raise EncodingError("stmt " + ast.dump(st)[:160])

    def run(self, start, stop, fmt, one):
        results = []
        env = {"start": start, "stop": stop, "fmt": fmt, "one": one}
        rest = self.block(self.fn.body, env, [], results)
        if rest:
            raise EncodingError("function can fall off its end")
        return results

    def bin1(self, start, stop, fmt="bed"):
        """ITE term of the one=True result; NONINT marks a path that returned a set"""
        paths = self.run(start, stop, fmt, True)
        out = z3.IntVal(-777)
        for pc, r in reversed(paths):
            if isinstance(r, SymSet):
                r = z3.IntVal(-777)
            r = r if z3.is_expr(r) else z3.IntVal(r)
            out = z3.If(pc, r, out)
        return out

    def inbins(self, b, start, stop, fmt="bed"):
        """membership predicate of the one=False result"""
        paths = self.run(start, stop, fmt, False)
        terms = []
        for pc, r in paths:
            if not isinstance(r, SymSet):
                raise EncodingError("one=False returned a non-set")
            terms.append(z3.And(pc, r.contains(b)))
        return z3.Or(terms)


# ====================================================================================== solving helpers
class Query:
    """one negated-property query, decided by z3 and cross-checked by cvc5 (wheel) when available"""

    def __init__(self, name, assertions, vars_, timeout_ms=60000):
        self.name, self.assertions, self.vars, self.timeout_ms = name, assertions, vars_, timeout_ms

    def solve(self, cross=True):
        t0 = time.time()
        s = z3.Solver()
        s.set("timeout", self.timeout_ms)
        s.add(*self.assertions)
        r = s.check()
        out = dict(name=self.name, z3=str(r), model=None, z3_s=round(time.time() - t0, 3))
        if r == z3.sat:
            m = s.model()
            out["model"] = {str(v): m.eval(v, model_completion=True).as_long() for v in self.vars}
        if cross:
            out["cvc5"] = cvc5_check(s.to_smt2(), self.timeout_ms)
        return out


def cvc5_check(smt2, timeout_ms=60000):
    try:
        import cvc5
    except Exception:
        return "unavailable"
    try:
        slv = cvc5.Solver()
        slv.setOption("tlimit-per", str(timeout_ms))
        slv.setLogic("ALL")
        p = cvc5.InputParser(slv)
        p.setStringInput(cvc5.InputLanguage.SMT_LIB_2_6, smt2, "q")
        sm = p.getSymbolManager()
        last = ""
        while True:
            cmd = p.nextCommand()
            if cmd.isNull():
                break
            r = cmd.invoke(slv, sm)
            if str(r).strip():
                last = str(r).strip()
        return last or "none"
    except Exception as e:  # noqa
        return "error:%s" % type(e).__name__


def cvc5_string_query(smt2, timeout_ms=120000):
    """decide a string query with cvc5 (strings-exp); returns (verdict, model dict name->str value when sat)"""
    import re

    try:
        import cvc5
    except Exception:
        return "unavailable", {}
    try:
        slv = cvc5.Solver()
        slv.setOption("tlimit-per", str(timeout_ms))
        slv.setOption("produce-models", "true")
        slv.setOption("strings-exp", "true")
        slv.setLogic("ALL")
        p = cvc5.InputParser(slv)
        p.setStringInput(cvc5.InputLanguage.SMT_LIB_2_6, smt2 + "\n(get-model)\n", "q")
        sm = p.getSymbolManager()
        verdict, model = "none", {}
        while True:
            cmd = p.nextCommand()
            if cmd.isNull():
                break
            try:
                r = str(cmd.invoke(slv, sm)).strip()
            except Exception:  # noqa  (get-model after unsat)
                continue
            if r in ("sat", "unsat", "unknown"):
                verdict = r
            elif r.startswith("("):
                for m in re.finditer(r'\(define-fun (\S+) \(\) String "([^"]*)"\)', r):
                    model[m.group(1)] = m.group(2)
        return verdict, model
    except Exception as e:  # noqa
        return "error:%s" % type(e).__name__, {}
