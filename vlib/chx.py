"""CrossHair driver: runs ONE obligation exhaustively and returns a verdict.

The obligation's pre/post are handed to CrossHair as programmatic `Conditions` (no docstring parsing), the search is
CrossHair's own `analyze_calltree` (path tree + z3), and counterexamples are rendered as JSON by our own
`counterexample_description_maker` so they can be replayed on the plain interpreter.
"""
import collections
import inspect
import json
import sys
import time
import traceback

from crosshair import core as _core
from crosshair.condition_parser import ConditionExpr, ConditionExprType, Conditions
from crosshair.options import DEFAULT_OPTIONS
from crosshair.statespace import MessageType, VerificationStatus
from crosshair.tracers import NoTracing

from vlib import stubs

CEX_TAG = "CEX_JSON:"

# ---- measured counters: branch decisions along explored paths and z3 satisfiability checks
COUNTS = {"decisions": 0, "solver_checks": 0}
from crosshair import statespace as _ss  # noqa: E402

_orig_bubble = _ss.StateSpace.bubble_status


def _counting_bubble(self, analysis):
    COUNTS["decisions"] += len(self.choices_made)
    return _orig_bubble(self, analysis)


_ss.StateSpace.bubble_status = _counting_bubble
_orig_is_sat = _ss.solver_is_sat


def _counting_is_sat(solver, *exprs):
    COUNTS["solver_checks"] += 1
    return _orig_is_sat(solver, *exprs)


_ss.solver_is_sat = _counting_is_sat


def _cex_maker(bound_args, return_val, reprs):
    with NoTracing():
        args = {}
        for k, v in bound_args.arguments.items():
            v = _core.deep_realize(v)
            if isinstance(v, bool):
                args[k] = bool(v)
            elif isinstance(v, int):
                args[k] = int(v)
            elif isinstance(v, str):
                args[k] = str(v)
            else:
                args[k] = repr(v)
        return (CEX_TAG + json.dumps(args, ensure_ascii=True) + ":END", "None")


def _conditions(fn, params, pre, post):
    sig = inspect.Signature(
        [inspect.Parameter(n, inspect.Parameter.POSITIONAL_OR_KEYWORD, annotation=t) for n, t in params.items()]
    )
    names = list(params)
    kwfn = fn

    def fn(*a, **kw):  # CrossHair binds positionally; obligations take keywords
        kw.update(zip(names, a))
        return kwfn(**kw)

    fn.__name__ = getattr(kwfn, "__name__", "obl")
    fn.__qualname__ = getattr(kwfn, "__qualname__", "obl")
    fname = getattr(getattr(kwfn, "__code__", None), "co_filename", "<obl>")
    line = getattr(getattr(kwfn, "__code__", None), "co_firstlineno", 0)
    pres = []
    if pre is not None:
        pres.append(
            ConditionExpr(
                ConditionExprType.PRECONDITION,
                lambda ns: pre(**{k: ns[k] for k in names}),
                fname,
                line,
                getattr(pre, "__doc__", None) or "pre",
            )
        )
    posts = [ConditionExpr(ConditionExprType.POSTCONDITION, post, fname, line, "post")]
    return Conditions(fn, fn, pres, posts, frozenset(), sig, None, [], _cex_maker)


def _parse_cex(text):
    i = text.find(CEX_TAG)
    if i < 0:
        return None
    j = text.find(":END", i)
    try:
        return json.loads(text[i + len(CEX_TAG) : j])
    except Exception:
        return None


def _analyze(cond, budget, per_path_timeout, max_iterations=sys.maxsize):
    opts = DEFAULT_OPTIONS.overlay(
        per_condition_timeout=float(budget),
        per_path_timeout=float(per_path_timeout),
        max_uninteresting_iterations=sys.maxsize,
        max_iterations=max_iterations,
    )
    opts.stats = collections.Counter()
    opts.deadline = time.process_time() + budget
    t0 = time.time()
    c0 = time.process_time()
    with _core.condition_parser(opts.analysis_kind):
        analysis = _core.analyze_calltree(opts, cond)
    return analysis, opts.stats, time.time() - t0, time.process_time() - c0


def run(obl, twin_only=False):
    """returns dict(verdict=..., paths=..., ...). verdicts:
    CONFIRMED | REFUTED (with cex) | UNKNOWN (timeout / not exhausted) | PRE_UNSAT | ERROR
    """
    out = dict(name=obl.name, verdict="ERROR", paths=0, confirmed_paths=0, wall_s=0.0, cpu_s=0.0, cex=None,
               message="", twin=None, twin_cex=None, realized=0)
    COUNTS["decisions"] = 0
    COUNTS["solver_checks"] = 0
    try:
        # ---------- reachability twin: same body, post-condition `False` -> must be refuted by a concrete input
        if obl.twin:
            stubs.reset_tokens()
            tw = _conditions(obl.fn, obl.params, obl.pre, lambda ns: False)
            an, st, w, c = _analyze(tw, min(obl.budget, 30.0), obl.per_path_timeout)
            out["twin_paths"] = st["num_paths"]
            msgs = [m for m in an.messages if m.state == MessageType.POST_FAIL]
            if msgs:
                out["twin"] = "reached"
                out["twin_cex"] = _parse_cex(msgs[0].message)
            else:
                errs = [m for m in an.messages if m.state in (MessageType.EXEC_ERR, MessageType.POST_ERR)]
                if errs:
                    # body raised before reaching the end: that is already a candidate counterexample
                    out["twin"] = "exception"
                    out["verdict"] = "REFUTED"
                    out["cex"] = _parse_cex(errs[0].message)
                    out["message"] = errs[0].message[:2000]
                    out["trace"] = (errs[0].traceback or "")[-3000:]
                    return out
                out["twin"] = "unreached"
                out["message"] = "; ".join(m.message for m in an.messages)[:500]
                # is the PRECONDITION itself satisfiable? (a body-free twin: distinguishes an empty input space - e.g. a contradictory cube - from a body
                # that aborts on every path)
                tw0 = _conditions(lambda **kw: True, obl.params, obl.pre, lambda ns: False)
                an0, st0, _, _ = _analyze(tw0, 15.0, obl.per_path_timeout)
                out["pre_sat"] = any(m.state == MessageType.POST_FAIL for m in an0.messages)
        if twin_only:
            return out
        stubs.reset_tokens()
        stubs.REALIZED[0] = 0
        cond = _conditions(obl.fn, obl.params, obl.pre, lambda ns: ns["__return__"])
        an, st, w, c = _analyze(cond, obl.budget, obl.per_path_timeout)
        out["paths"] = st["num_paths"]
        out["confirmed_paths"] = an.num_confirmed_paths
        out["wall_s"] = round(w, 3)
        out["cpu_s"] = round(c, 3)
        out["realized"] = stubs.REALIZED[0]
        out["decisions"] = COUNTS["decisions"]
        out["solver_checks"] = COUNTS["solver_checks"]
        status = an.verification_status
        bad = [m for m in an.messages if m.state in (MessageType.POST_FAIL, MessageType.EXEC_ERR, MessageType.POST_ERR)]
        pre_unsat = [m for m in an.messages if m.state == MessageType.PRE_UNSAT]
        if pre_unsat:
            out["verdict"] = "PRE_UNSAT"
            out["message"] = pre_unsat[0].message
        elif bad:
            out["verdict"] = "REFUTED"
            out["cex"] = _parse_cex(bad[0].message)
            out["message"] = bad[0].message[:2000]
            out["trace"] = (bad[0].traceback or "")[-3000:]
            out["cex_kind"] = bad[0].state.name
        elif status == VerificationStatus.CONFIRMED:
            out["verdict"] = "CONFIRMED"
        else:
            out["verdict"] = "UNKNOWN"
            out["message"] = "path tree not exhausted within %.0fs CPU (%d paths)" % (obl.budget, st["num_paths"])
        return out
    except BaseException as e:  # noqa: worker must always report
        out["verdict"] = "ERROR"
        out["message"] = "%s: %s" % (type(e).__name__, e)
        out["trace"] = traceback.format_exc()[-3000:]
        return out
