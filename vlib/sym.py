"""Non-forking oracle combinators.

Under CrossHair the arguments may be SymbolicBool/SymbolicInt: the combinators build ONE z3 term and wrap it, so that
an oracle costs a single solver query per execution path instead of 2^n forks (python `and`/`or`/`any` force __bool__).
Under the plain interpreter (replay, concrete validation) crosshair is not importable and everything degrades to
ordinary Python arithmetic, so the very same harness function is what gets replayed.
"""
try:  # symbolic mode
    import z3
    from crosshair.libimpl.builtinslib import SymbolicBool, SymbolicInt
    from crosshair.tracers import NoTracing

    HAVE_CH = True
except Exception:  # plain interpreter (replay): no crosshair installed
    HAVE_CH = False


if HAVE_CH:

    def _is_sym(x):
        return isinstance(x, (SymbolicBool, SymbolicInt))

    def _zb(x):
        if isinstance(x, SymbolicBool):
            return x.var
        if isinstance(x, SymbolicInt):
            return x.var != 0
        return z3.BoolVal(bool(x))

    def _zi(x):
        if isinstance(x, SymbolicInt):
            return x.var
        if isinstance(x, SymbolicBool):
            return z3.If(x.var, z3.IntVal(1), z3.IntVal(0))
        return z3.IntVal(int(x))

    def AND(*xs):
        with NoTracing():
            if not any(_is_sym(x) for x in xs):
                return all(bool(x) for x in xs)
            if any((not _is_sym(x)) and not x for x in xs):
                return False
            return SymbolicBool(z3.And(*[_zb(x) for x in xs if _is_sym(x)]))

    def OR(*xs):
        with NoTracing():
            if not any(_is_sym(x) for x in xs):
                return any(bool(x) for x in xs)
            if any((not _is_sym(x)) and x for x in xs):
                return True
            return SymbolicBool(z3.Or(*[_zb(x) for x in xs if _is_sym(x)]))

    def NOT(x):
        with NoTracing():
            if not _is_sym(x):
                return not x
            return SymbolicBool(z3.Not(_zb(x)))

    def IFF(a, b):
        with NoTracing():
            if not _is_sym(a) and not _is_sym(b):
                return bool(a) == bool(b)
            return SymbolicBool(_zb(a) == _zb(b))

    def IMPLIES(a, b):
        with NoTracing():
            if not _is_sym(a) and not _is_sym(b):
                return (not a) or bool(b)
            return SymbolicBool(z3.Implies(_zb(a), _zb(b)))

    def ITE(c, a, b):
        """integer-valued if-then-else"""
        with NoTracing():
            if not _is_sym(c):
                return a if c else b
            return SymbolicInt(z3.If(_zb(c), _zi(a), _zi(b)))

    def BITE(c, a, b):
        """boolean-valued if-then-else"""
        with NoTracing():
            if not _is_sym(c):
                return a if c else b
            return SymbolicBool(z3.If(_zb(c), _zb(a), _zb(b)))

    def SUM(xs):
        xs = list(xs)
        with NoTracing():
            if not any(_is_sym(x) for x in xs):
                return sum(int(x) for x in xs)
            return SymbolicInt(z3.Sum(*[_zi(x) for x in xs]))

    def MIN(xs):
        xs = list(xs)
        out = xs[0]
        for x in xs[1:]:
            out = ITE(x < out, x, out)
        return out

    def MAX(xs):
        xs = list(xs)
        out = xs[0]
        for x in xs[1:]:
            out = ITE(x > out, x, out)
        return out

    def is_symbolic(x):
        with NoTracing():
            return _is_sym(x)

else:

    def AND(*xs):
        return all(bool(x) for x in xs)

    def OR(*xs):
        return any(bool(x) for x in xs)

    def NOT(x):
        return not x

    def IFF(a, b):
        return bool(a) == bool(b)

    def IMPLIES(a, b):
        return (not a) or bool(b)

    def ITE(c, a, b):
        return a if c else b

    BITE = ITE

    def SUM(xs):
        return sum(int(x) for x in xs)

    def MIN(xs):
        return min(xs)

    def MAX(xs):
        return max(xs)

    def is_symbolic(x):
        return False


class _Null:
    def __enter__(self):
        return self

    def __exit__(self, *a):
        return False


def untraced():
    """context manager: run the body natively (no symbolic tracing). Only for code whose inputs were realised first:
    the solver still enumerates the (finite) input space through the realisation forks, the body runs at native speed."""
    if HAVE_CH:
        return NoTracing()
    return _Null()


def concretize(*vals):
    """realise symbolic ints (each realisation is a fork the solver must close by enumerating every feasible value)"""
    if HAVE_CH:
        from crosshair.core import realize

        out = [realize(v) for v in vals]
    else:
        out = [int(v) for v in vals]
    return out if len(out) != 1 else out[0]


def ALL(xs):
    return AND(*list(xs))


def ANY(xs):
    return OR(*list(xs))


def COUNT(xs):
    """number of true elements (int-valued, non-forking)"""
    return SUM([ITE(x, 1, 0) for x in xs])
