"""S5: contract stub for util.bins.bins used by C09/C20 harnesses (assume/guarantee with C16).

one=True  -> an opaque token carrying (start, stop)
one=False -> an object whose `tok in obj` is True whenever tok's interval overlaps (hence also: is contained in) the query
             range -- exactly what C16 proves of the real bins() for query ends < 2^29 -- and a FRESH symbolic boolean
             otherwise, so a pre-filter relying on MORE than the contract is exposed by the nondeterministic answers.
"""
from crosshair.core import proxy_for_type

from vlib.sym import AND, OR

_n = [0]


class BinTok:
    __slots__ = ("start", "stop")

    def __init__(self, start, stop):
        self.start, self.stop = start, stop

    def __hash__(self):
        return 17

    def __eq__(self, other):
        return isinstance(other, BinTok) and bool(AND(self.start == other.start, self.stop == other.stop))


class BinSet:
    def __init__(self, qs, qe):
        self.qs, self.qe = qs, qe

    def __bool__(self):
        return True

    def isdisjoint(self, other):
        for x in other:
            if x in self:
                return False
        return True

    def intersection(self, other):
        return {x for x in other if x in self}

    __and__ = intersection
    __rand__ = intersection

    def __contains__(self, tok):
        if not isinstance(tok, BinTok):
            return False
        from crosshair.statespace import context_statespace

        space = context_statespace()
        n = getattr(space, "_binstub_n", 0) + 1  # per-path counter: names must be identical when a path is replayed
        space._binstub_n = n
        fresh = proxy_for_type(bool, "bins_other_%d" % n)
        overlap = AND(tok.start < self.qe, self.qs < tok.stop)
        return bool(OR(overlap, fresh))


def bins_contract(start, stop, fmt="gff", one=True):
    if one:
        return BinTok(start, stop)
    return BinSet(start, stop)


# ---------------------------------------------------------------------------------------------------------------------
# "smt" mode: the EXACT semantics of the real bins(), as z3 integer terms generated from /repo's current source by
# vlib.src2smt.BinsEncoder (the encoding C16 validates and decides). Bin numbers stay symbolic, so position queries are
# explored against the real binning scheme for ALL integer coordinates, and every counterexample replays with the real bins().
_ENC = []


def _encoder():
    if not _ENC:
        from vlib.src2smt import BinsEncoder

        _ENC.append(BinsEncoder())
    return _ENC[0]


class SmtBinSet:
    def __init__(self, zs, ze, fmt):
        self.zs, self.ze, self.fmt = zs, ze, fmt

    def __bool__(self):
        return True

    def __contains__(self, b):
        from crosshair.libimpl.builtinslib import SymbolicBool
        from crosshair.tracers import NoTracing

        from vlib.sym import _zi

        with NoTracing():
            term = SymbolicBool(_encoder().inbins(_zi(b), self.zs, self.ze, self.fmt))
        return bool(term)

    def isdisjoint(self, other):
        for x in other:
            if x in self:
                return False
        return True

    def intersection(self, other):
        return {x for x in other if x in self}

    __and__ = intersection
    __rand__ = intersection

    def __iter__(self):
        """REPRESENTATIVE elements only: every singleton and both end points of every (non-empty) range of the symbolic set, as symbolic ints. Exact
        for min()/max(); any other consumer sees a subset of the true elements (an under-approximation) - a counterexample that depends on it does
        not replay with the real bins() and is then reported as harness error, never as a violation."""
        from crosshair.libimpl.builtinslib import SymbolicInt
        from crosshair.tracers import NoTracing

        import z3

        with NoTracing():
            enc = _encoder()
            paths = enc.run(self.zs, self.ze, self.fmt, False)
            anchor = z3.IntVal(1)
            cands = []
            for pc, r in paths:
                for sv in r.singles:
                    cands.append(z3.If(pc, sv if z3.is_expr(sv) else z3.IntVal(sv), anchor))
                for lo, hi in r.ranges:
                    lo = lo if z3.is_expr(lo) else z3.IntVal(lo)
                    hi = hi if z3.is_expr(hi) else z3.IntVal(hi)
                    ne = z3.And(pc, lo <= hi)
                    cands.append(z3.If(ne, lo, anchor))
                    cands.append(z3.If(ne, hi, anchor))
                for g, sv in r.gsingles:
                    cands.append(z3.If(z3.And(pc, g), sv if z3.is_expr(sv) else z3.IntVal(sv), anchor))
                for g, lo, hi in r.granges:
                    ne = z3.And(pc, g, lo <= hi)
                    cands.append(z3.If(ne, lo, anchor))
                    cands.append(z3.If(ne, hi, anchor))
            out = [SymbolicInt(c) for c in cands]
        return iter(out)


def bins_smt(start, stop, fmt="gff", one=True):
    from crosshair.libimpl.builtinslib import SymbolicInt
    from crosshair.tracers import NoTracing

    from vlib.sym import _zi

    with NoTracing():
        zs, ze = _zi(start), _zi(stop)
        if one:
            return SymbolicInt(_encoder().bin1(zs, ze, fmt))
        return SmtBinSet(zs, ze, fmt)
