"""S5: contract stub for util.bins.bins used by C09/C20 harnesses (assume/guarantee with C16).

one=True  -> an opaque token carrying (start, stop)
one=False -> an object whose `tok in obj` is True whenever tok's interval overlaps (hence also: is contained in) the query
             range -- exactly what C16 proves of the real bins() for query ends < 2^29 -- and a FRESH symbolic boolean
             otherwise, so a pre-filter relying on MORE than the contract is exposed by the nondeterministic answers.
"""
from crosshair.core import proxy_for_type

from vlib.sym import AND, OR

_n = [0]


class BinTok:
    __slots__ = ("start", "stop")

    def __init__(self, start, stop):
        self.start, self.stop = start, stop

    def __hash__(self):
        return 17

    def __eq__(self, other):
        return isinstance(other, BinTok) and bool(AND(self.start == other.start, self.stop == other.stop))


class BinSet:
    def __init__(self, qs, qe):
        self.qs, self.qe = qs, qe

    def __bool__(self):
        return True

    def __contains__(self, tok):
        if not isinstance(tok, BinTok):
            return False
        from crosshair.statespace import context_statespace

        space = context_statespace()
        n = getattr(space, "_binstub_n", 0) + 1  # per-path counter: names must be identical when a path is replayed
        space._binstub_n = n
        fresh = proxy_for_type(bool, "bins_other_%d" % n)
        overlap = AND(tok.start < self.qe, self.qs < tok.stop)
        return bool(OR(overlap, fresh))


def bins_contract(start, stop, fmt="gff", one=True):
    if one:
        return BinTok(start, stop)
    return BinSet(start, stop)
