"""known_findings.json handling. The file is committed and never written at run time.

entry: {"id": "F3", "property": "C14", "status": "open" | "fixed",
        "obligations": "<regex on obligation name>",
        "region": "<python expression over the obligation's arguments: the failing input region>",
        "witness": {"obligation": "<name>", "tier": "quick", "args": {...}},
        "what": "<what fails>"}
open entries: the region is assumed away (pre := pre and not region) so that a DIFFERENT violation of the same property
is still found, and the witness is replayed on every run (-> KNOWN-FINDING line while it still fails).
fixed entries suppress nothing.
"""
import json
import os
import re

from vlib.sym import AND, NOT

PATH = os.path.join(os.path.dirname(os.path.dirname(os.path.abspath(__file__))), "known_findings.json")


def load():
    if not os.path.exists(PATH):
        return []
    return json.load(open(PATH))["findings"]


def open_for(prop):
    return [f for f in load() if f["property"] == prop and f.get("status") == "open"]


def _region_fn(expr, consts=None):
    code = compile(expr, "<finding-region>", "eval")
    from vlib.sym import ITE, OR

    def region(**kw):
        env = dict(consts or {})
        env.update(kw)
        return eval(code, {"AND": AND, "NOT": NOT, "OR": OR, "ITE": ITE}, env)

    return region


def regions_for(prop, name):
    """region expressions (strings) of the open findings that apply to obligation `name` (used by smt obligations,
    which conjoin NOT(region) to their assumptions themselves)"""
    out = []
    for f in open_for(prop):
        if f.get("region") and re.compile(f["obligations"]).fullmatch(name):
            out.append((f["id"], f["region"]))
    return out


def apply_exclusions(prop, obls):
    """obls: dict name -> Obl; wraps pre of matching obligations in place"""
    for f in open_for(prop):
        if not f.get("region"):
            continue
        rx = re.compile(f["obligations"])
        for name, o in obls.items():
            if rx.fullmatch(name) and o.kind == "smt":
                o.excluded = getattr(o, "excluded", []) + [f["id"]]
            elif rx.fullmatch(name):
                o.pre = _wrap(o.pre, _region_fn(f["region"], o.consts))
                o.excluded = getattr(o, "excluded", []) + [f["id"]]


def _wrap(pre, reg):
    def pre2(**kw):
        if pre is not None and not pre(**kw):
            return False
        return not reg(**kw)

    pre2.__doc__ = (getattr(pre, "__doc__", None) or "pre") + " and not <known-finding region>"
    return pre2
