"""Obligation description shared by harness modules, symbolic workers and the concrete replayer.
Must import without crosshair (the replayer runs on /venv/bin/python)."""
from dataclasses import dataclass, field
from typing import Any, Callable, Dict, List, Optional


@dataclass
class Obl:
    name: str  # unique within the property
    fn: Callable  # fn(**args) -> truthy (possibly symbolic) iff the property holds on this input
    params: Dict[str, type]  # ordered: symbolic variables and their python types (int / bool / str)
    pre: Optional[Callable] = None  # pre(**args) -> truthy: validity predicate + shape bound
    budget: float = 60.0  # CPU seconds for the exhaustive search
    desc: str = ""  # what is asserted
    bounds: str = ""  # the bound, in words
    examples: List[Dict[str, Any]] = field(default_factory=list)  # concrete vectors run on the plain interpreter
    stubs: Dict[str, Any] = field(default_factory=dict)  # overrides for vlib.stubs.install
    per_path_timeout: float = 20.0
    twin: bool = True  # run the reachability twin
    cost: float = 1.0  # scheduling hint (expected seconds)
    kind: str = "crosshair"  # "crosshair" | "smt" (fn() -> dict result, run directly)
    consts: Dict[str, Any] = field(default_factory=dict)  # constants visible to known-finding region expressions
    concrete: Optional[Callable] = None  # smt kind: concrete(**args) -> truthy iff the property holds on the REAL code


def simple_pre(expr: str, names):
    """build a pre-condition callable from an expression string over the parameter names"""
    code = compile(expr, "<pre:%s>" % expr, "eval")

    def pre(**kw):
        return eval(code, {}, kw)

    pre.__doc__ = expr
    return pre


def split_cubes(obl, preds, cost_share=None):
    """cube splitting: one obligation per sign combination of the predicates (exhaustive by construction: every input
    satisfies exactly one combination), so a heavy obligation becomes 2^n independent, parallel ones."""
    import copy
    import itertools

    names = list(preds)
    out = []
    for signs in itertools.product((True, False), repeat=len(names)):
        o = copy.copy(obl)
        tag = "_".join(("%s" if sg else "not-%s") % n for n, sg in zip(names, signs))
        o.name = "%s__cube_%s" % (obl.name, tag)
        base = obl.pre

        def pre(base=base, signs=signs, **kw):
            if base is not None and not base(**kw):
                return False
            for n, sg in zip(names, signs):
                if bool(preds[n](**kw)) != sg:
                    return False
            return True

        pre.__doc__ = (getattr(base, "__doc__", None) or "pre") + " and cube " + tag
        o.pre = pre
        o.cost = obl.cost / (cost_share or len(list(itertools.product((0, 1), repeat=len(names)))))
        o.bounds = obl.bounds + "; cube " + tag
        o.examples = [e for e in obl.examples if pre(**e)]
        o.is_cube = True  # an EMPTY cube (contradictory sign combination) is not an error: the cubes cover the input space by construction
        out.append(o)
    return out
