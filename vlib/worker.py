"""Symbolic worker: python -m vlib.worker <PROP> <tier> <name> [<name> ...]
Runs the named obligations of harness.<prop> sequentially under CrossHair and prints one `RESULT <json>` line each."""
import importlib
import json
import os
import sys
import time


def main():
    prop, tier = sys.argv[1], sys.argv[2]
    names = sys.argv[3:]
    if names and names[0] == "--twin-only":
        twin_only = True
        names = names[1:]
    else:
        twin_only = False
    sys.setrecursionlimit(20000)
    mod = importlib.import_module("harness.%s" % prop.lower())
    obls = {o.name: o for o in mod.obligations(tier)}
    from vlib import findings

    findings.apply_exclusions(prop, obls)
    first = obls[names[0]]
    if first.kind == "crosshair":
        from vlib import stubs

        cfg = dict(getattr(mod, "STUBS", {}))
        cfg.update(first.stubs)
        stubs.install(**cfg)
        if hasattr(mod, "post_install"):
            mod.post_install()
        from vlib import chx
    for n in names:
        o = obls[n]
        if tier == "quick":
            o.budget = min(o.budget, float(os.environ.get("VERIF_QUICK_BUDGET_CAP", "360")))  # hard per-obligation cap in the quick tier
        t0 = time.time()
        if o.kind == "smt":
            try:
                res = o.fn()
                res.setdefault("name", o.name)
            except Exception as e:  # noqa
                import traceback

                res = dict(name=o.name, verdict="ERROR", message="%s: %s" % (type(e).__name__, e),
                           trace=traceback.format_exc()[-3000:])
            res.setdefault("wall_s", round(time.time() - t0, 3))
        else:
            res = chx.run(o, twin_only=twin_only)
        sys.stdout.write("RESULT " + json.dumps(res, default=str) + "\n")
        sys.stdout.flush()


if __name__ == "__main__":
    main()
