"""Obligation scheduler, counterexample replay, known-finding matching, evidence writer.

usage: python -m vlib.runner <PROP> <quick|thorough> [--only regex] [--replay file] [--jobs N]
exit 0: property held on everything explored (KNOWN-FINDING lines possible); exit 1: VIOLATION line printed;
exit 3: harness error (vacuous obligation, counterexample that does not replay, worker crash).
"""
import argparse
import hashlib
import importlib
import json
import os
import re
import subprocess
import sys
import time
from concurrent.futures import ThreadPoolExecutor

ROOT = os.path.dirname(os.path.dirname(os.path.abspath(__file__)))
PY_SYM = os.path.join(ROOT, ".venv", "bin", "python")
PY_PLAIN = "/venv/bin/python"
REPO = os.environ.get("VERIF_REPO", "/repo")  # VERIF_REPO: testing aid (seeded mutants in scratch worktrees); checks use /repo


def _env(plain=False):
    e = dict(os.environ)
    e["PYTHONPATH"] = REPO + ":" + ROOT
    e["PYTHONHASHSEED"] = e.get("VERIF_HASHSEED", "0")
    e["INSCRIPTALABS_BIOCANTOR_VERIF"] = "1"
    e["PYTHONDONTWRITEBYTECODE"] = "1"
    return e


def run_worker(prop, tier, names, hard_timeout, extra=()):
    cmd = [PY_SYM, "-m", "vlib.worker", prop, tier] + list(extra) + list(names)
    t0 = time.time()
    try:
        p = subprocess.run(cmd, cwd=ROOT, env=_env(), capture_output=True, text=True, timeout=hard_timeout)
        out, err, rc = p.stdout, p.stderr, p.returncode
    except subprocess.TimeoutExpired as e:
        out = e.stdout.decode() if isinstance(e.stdout, bytes) else (e.stdout or "")
        err = "HARD TIMEOUT after %.0fs" % hard_timeout
        rc = -9
    res = {}
    for line in out.splitlines():
        if line.startswith("RESULT "):
            r = json.loads(line[7:])
            res[r["name"]] = r
    for n in names:
        if n not in res:
            res[n] = dict(name=n, verdict="UNKNOWN" if rc == -9 else "ERROR",
                          message=("worker rc=%s " % rc) + (err or "")[-1500:], paths=0)
    return res, time.time() - t0


def replay_batch(items):
    if not items:
        return []
    p = subprocess.run([PY_PLAIN, "-m", "vlib.replay"], cwd=ROOT, env=_env(True), input=json.dumps(items),
                       capture_output=True, text=True, timeout=1800)
    outs = []
    for line in p.stdout.splitlines():
        if line.startswith("REPLAY "):
            outs.append(json.loads(line[7:]))
    if len(outs) != len(items):
        raise RuntimeError("replayer failed: rc=%s\n%s\n%s" % (p.returncode, p.stdout[-2000:], p.stderr[-3000:]))
    return outs


def batches(obls, jobs, target):
    """greedy batching by stub configuration and cost"""
    groups = {}
    for o in obls:
        key = json.dumps(o.stubs, sort_keys=True) + o.kind
        groups.setdefault(key, []).append(o)
    out = []
    for key, lst in groups.items():
        lst = sorted(lst, key=lambda o: -o.cost)
        cur, cost = [], 0.0
        for o in lst:
            if cur and cost + o.cost > target:
                out.append(cur)
                cur, cost = [], 0.0
            cur.append(o)
            cost += o.cost
        if cur:
            out.append(cur)
    out.sort(key=lambda b: -sum(o.cost for o in b))
    return out


def main(argv=None):
    ap = argparse.ArgumentParser()
    ap.add_argument("prop")
    ap.add_argument("tier", choices=["quick", "thorough"])
    ap.add_argument("--only", default=None)
    ap.add_argument("--replay", default=None)
    ap.add_argument("--jobs", type=int, default=int(os.environ.get("VERIF_JOBS", "16")))
    ap.add_argument("--no-evidence", action="store_true")
    ap.add_argument("-v", action="store_true")
    a = ap.parse_args(argv)
    prop, tier = a.prop.upper(), a.tier
    seed = int(os.environ.get("VERIF_SEED", "0"))
    t_start = time.time()
    sys.path.insert(0, ROOT)
    sys.path.insert(0, REPO)
    from vlib import findings

    if a.replay:
        item = json.load(open(a.replay))
        r = replay_batch([dict(prop=item["property"], tier=item["tier"], name=item["obligation"], args=item["args"])])[0]
        print(json.dumps(r, indent=1))
        bad = r["pre"] and not r["holds"]
        print("REPRODUCED" if bad else "NOT REPRODUCED")
        return 1 if bad else 0

    mod = importlib.import_module("harness.%s" % prop.lower())
    obls = mod.obligations(tier)
    names = [o.name for o in obls]
    assert len(set(names)) == len(names), "duplicate obligation names"
    if a.only:
        rx = re.compile(a.only)
        obls = [o for o in obls if rx.search(o.name)]
    byname = {o.name: o for o in obls}
    meta = getattr(mod, "META", {})

    # ---------------- 1. concrete validation of harness + oracle on the plain interpreter (examples)
    ex_items = []
    orig_pre = {o.name: o.pre for o in obls}
    findings.apply_exclusions(prop, byname)
    for o in obls:
        for ex in o.examples:
            try:
                in_region = (orig_pre[o.name] is None or orig_pre[o.name](**ex)) and o.pre is not None and not o.pre(**ex)
            except Exception:  # noqa
                in_region = False
            if in_region:
                continue  # the example lies in a recorded known-finding region (replayed separately as the witness)
            ex_items.append(dict(prop=prop, tier=tier, name=o.name, args=ex))
    # ---------------- 2. known-finding witnesses
    kf = findings.open_for(prop)
    kf_items = []
    for f in kf:
        w = f["witness"]
        kf_items.append(dict(prop=prop, tier=w.get("tier", "quick"), name=w["obligation"], args=w["args"]))
    pre_results = replay_batch(ex_items + kf_items)
    ex_res, kf_res = pre_results[: len(ex_items)], pre_results[len(ex_items):]
    harness_errors = []
    violations = []  # (obligation, args, replay result)
    validated = 0
    for it, r in zip(ex_items, ex_res):
        if r.get("harness_error") or not r["pre"]:
            harness_errors.append("example %s %s: %s" % (it["name"], it["args"], r.get("exc") or "pre false"))
        elif not r["holds"]:
            violations.append((it["name"], it["args"], r, "example"))
        else:
            validated += 1
    known_lines = []
    for f, r in zip(kf, kf_res):
        if r.get("pre") and r.get("holds") is False:
            known_lines.append("KNOWN-FINDING: property=%s %s [%s; witness %s %s -> %s]" % (
                prop, f["what"], f["id"], f["witness"]["obligation"], json.dumps(f["witness"]["args"]),
                (r.get("exc") or "property false")[:160]))
        else:
            known_lines.append("NOTE: known finding %s no longer reproduces on this tree (witness %s): %s" % (
                f["id"], f["witness"]["obligation"], "holds" if r.get("holds") else r.get("exc")))

    if os.environ.get("VERIF_EXAMPLES_ONLY"):
        # development aid: validate every example and known-finding witness of a tier on the plain interpreter, without the symbolic search
        for h in harness_errors:
            print("HARNESS-ERROR:", h)
        for v in violations:
            print("  example violates obligation %s args=%s" % (v[0], json.dumps(v[1])))
        print("%s %s examples only: %d obligations, %d examples validated, %d example violations, %d harness errors" % (
            prop, tier, len(obls), validated, len(violations), len(harness_errors)))
        return 3 if harness_errors else (1 if violations else 0)
    # ---------------- 3. symbolic runs
    target = float(meta.get("batch_cost", 25.0))
    bl = batches(obls, a.jobs, target)
    results = {}
    t_solver = 0.0

    def job(b):
        hard = sum(o.budget + (30.0 if o.twin else 0.0) for o in b) * 1.3 + 60.0
        return run_worker(prop, tier, [o.name for o in b], hard)

    with ThreadPoolExecutor(max_workers=a.jobs) as ex:
        for res, w in ex.map(job, bl):
            results.update(res)
            t_solver += w

    # ---------------- 4. replay of twin witnesses (validation) and of counterexamples (decision)
    rp_items, rp_kind = [], []
    for n, r in results.items():
        if r.get("twin_cex") is not None:
            rp_items.append(dict(prop=prop, tier=tier, name=n, args=r["twin_cex"]))
            rp_kind.append("twin")
        if r.get("verdict") == "REFUTED" and r.get("cex") is not None:
            rp_items.append(dict(prop=prop, tier=tier, name=n, args=r["cex"]))
            rp_kind.append("cex")
    rp = replay_batch(rp_items)
    for it, kind, r in zip(rp_items, rp_kind, rp):
        n = it["name"]
        if kind == "twin":
            if r.get("harness_error") or not r["pre"]:
                harness_errors.append("twin witness %s %s: %s" % (n, it["args"], r.get("exc") or "pre false"))
            elif r["holds"]:
                validated += 1
                results[n]["twin_replayed"] = True
            else:
                # the concrete run disagrees with the property on a reachable input
                if results[n].get("verdict") != "REFUTED":
                    violations.append((n, it["args"], r, "twin-witness"))
        else:
            if r.get("harness_error") or not r["pre"]:
                harness_errors.append("counterexample %s %s could not be replayed: %s" % (n, it["args"], r.get("exc")))
                results[n]["verdict"] = "CEX_NOT_REPLAYED"
            elif r["holds"]:
                harness_errors.append("counterexample %s %s does NOT reproduce on the plain interpreter "
                                      "(stub/encoding mismatch): %s" % (n, it["args"], results[n].get("message", "")[:300]))
                results[n]["verdict"] = "CEX_NOT_REPRODUCED"
            else:
                violations.append((n, it["args"], r, "solver-counterexample"))
    for n, r in results.items():
        o = byname[n]
        if o.kind == "smt":
            validated += int(r.get("validated", 0))
        if r.get("verdict") == "REFUTED" and r.get("cex") is None:
            harness_errors.append("refuted without parsable counterexample: %s: %s" % (n, r.get("message", "")[:500]))
        if r.get("verdict") == "ERROR":
            harness_errors.append("worker error in %s: %s" % (n, r.get("message", "")[:800]))
        if r.get("verdict") == "PRE_UNSAT" and getattr(o, "is_cube", False) and not o.examples and r.get("pre_sat") is False:
            r["verdict"] = "EMPTY_CUBE"
            continue
        if r.get("verdict") == "PRE_UNSAT" and getattr(o, "excluded", None) and r.get("pre_sat") is False:
            # the whole input space of this obligation lies inside a recorded known-finding region (witness replayed above)
            r["verdict"] = "EXCLUDED_KNOWN_FINDING"
            continue
        if r.get("verdict") == "PRE_UNSAT" or (o.twin and r.get("twin") == "unreached" and r.get("verdict") == "CONFIRMED"):
            harness_errors.append("vacuous obligation %s: %s" % (n, r.get("message", "")[:300]))

    # ---------------- 5. report
    os.makedirs(os.path.join(ROOT, "replay"), exist_ok=True)
    viol_lines = []
    seen = set()
    for n, args, r, how in violations:
        key = (n, json.dumps(args, sort_keys=True))
        if key in seen:
            continue
        seen.add(key)
        h = hashlib.sha1(("%s|%s" % key).encode()).hexdigest()[:10]
        path = os.path.join(ROOT, "replay", "%s-%s.json" % (prop, h))
        json.dump(dict(property=prop, tier=tier, obligation=n, args=args, found_by=how,
                       observed=r.get("exc") or r.get("message") or "property evaluated to False",
                       trace=r.get("trace"), desc=getattr(byname.get(n), "desc", "")), open(path, "w"), indent=1)
        viol_lines.append("VIOLATION property=%s replay=%s" % (prop, path))
        print("  violated obligation %s args=%s : %s" % (n, json.dumps(args), (r.get("exc") or "property false")[:300]))

    counts = {}
    for r in results.values():
        counts[r.get("verdict")] = counts.get(r.get("verdict"), 0) + 1
    n_obl = len(obls)
    discharged = sum(1 for r in results.values() if r.get("verdict") in ("CONFIRMED", "EMPTY_CUBE"))
    inconclusive = sorted(n for n, r in results.items() if r.get("verdict") in ("UNKNOWN",))
    paths = sum(int(r.get("paths", 0) or 0) + int(r.get("twin_paths", 0) or 0) for r in results.values())
    queries = sum(int(r.get("queries", 0) or 0) for r in results.values())
    decisions = sum(int(r.get("decisions", 0) or 0) for r in results.values())
    solver_checks = sum(int(r.get("solver_checks", 0) or 0) for r in results.values()) + queries
    wall = time.time() - t_start
    print("%s %s: %d obligations, %d discharged, %d inconclusive, %d violations, %d harness errors; %d paths; "
          "%d concrete validations; wall %.1fs (solver-side %.1fs summed)" % (
              prop, tier, n_obl, discharged, len(inconclusive), len(viol_lines), len(harness_errors), paths,
              validated, wall, t_solver))
    if a.v or harness_errors:
        for n in sorted(results):
            r = results[n]
            print("   %-60s %-10s paths=%-6s cpu=%-7s %s" % (n, r.get("verdict"), r.get("paths"), r.get("cpu_s", r.get("wall_s")),
                                                             (r.get("message") or "")[:160].replace("\n", " ")))
    if inconclusive:
        print("  inconclusive (not discharged, not counted as success): %s" % ", ".join(inconclusive[:40]))
    for l in known_lines:
        print(l)
    for e in harness_errors:
        print("HARNESS-ERROR: " + e)
    for l in viol_lines:
        print(l)

    if not a.no_evidence and not a.only:
        samples = []
        for n in sorted(results)[:400]:
            r, o = results[n], byname[n]
            samples.append(dict(obligation=n, asserts=o.desc, bound=o.bounds, verdict=r.get("verdict"),
                                paths=r.get("paths"), queries=r.get("queries"), cpu_s=r.get("cpu_s", r.get("wall_s")),
                                realizations=r.get("realized"), reach_witness=r.get("twin_cex"),
                                excluded_known_findings=getattr(o, "excluded", None)))
        ev = dict(
            property_id=prop, tier=tier, seed=seed, level="model_checking",
            coverage=dict(
                states=max(paths + queries, 1),
                transitions=max(decisions + queries, 1),
                solver_checks=solver_checks,
                traces_validated_against_impl=validated,
                samples=samples,
                obligations=n_obl, discharged=discharged, inconclusive=inconclusive,
                verdict_counts=counts,
                exhaustive=bool(meta.get("exhaustive", False)) and discharged == n_obl,
                states_meaning="states = execution paths explored by CrossHair (incl. reachability twins) + direct SMT queries; "
                               "transitions = symbolic branch decisions taken along those paths + direct SMT queries; "
                               "solver_checks = z3 satisfiability checks issued",
                functions_encoded=meta.get("functions", []),
                bounds=(meta.get("bounds", "").get(tier, "") if isinstance(meta.get("bounds", ""), dict) else meta.get("bounds", "")),
                outside_claim=meta.get("outside", ""),
                stubs=meta.get("stubs", []),
                solver_wall_s=round(t_solver, 1),
                engines=meta.get("engines", "CrossHair 0.0.110 (z3 5.1.0) on modules imported from /repo"),
                known_findings=[l for l in known_lines],
                harness_errors=harness_errors,
            ),
            assumptions=meta.get("assumptions", []),
            wall_s=round(wall, 2),
            violations=len(viol_lines),
        )
        os.makedirs(os.path.join(ROOT, "evidence"), exist_ok=True)
        json.dump(ev, open(os.path.join(ROOT, "evidence", "%s.json" % prop), "w"), indent=1)
    if viol_lines:
        return 1
    if harness_errors:
        return 3
    return 0


if __name__ == "__main__":
    sys.exit(main())
